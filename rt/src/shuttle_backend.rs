//! Backend over shuttle-engine's coroutine runtime.
//!
//! Exactly one coroutine runs at any time (all on one OS thread), so plain `Cell`s are sufficient
//! for the facade's own bookkeeping. Every intercepted operation first calls `fine_point`, which is
//! a decision point of the controlled scheduler at *fine* granularity and a no-op at *coarse*
//! granularity; `point` (protocol points), yields and blocking events are decision points always.
//!
//! Outside a controlled execution (`ctl::set_in_execution(false)`, the default) all operations
//! degrade to their sequential meaning, so that the sequential paths of grevm can be driven by
//! plain enumeration without the runtime.

use shuttle_engine::runtime::execution::ExecutionState;
use shuttle_engine::runtime::task::TaskId;
use shuttle_engine::runtime::thread::continuation::switch;
use std::cell::Cell;

use crate::pt;

thread_local! {
    static AT_POINT: Cell<u32> = const { Cell::new(0) };
    static FINE: Cell<bool> = const { Cell::new(false) };
    static IN_EXEC: Cell<bool> = const { Cell::new(false) };
    static POINTS: Cell<u64> = const { Cell::new(0) };
}

/// Control surface for the explorer.
pub mod ctl {
    use super::*;

    /// Mark the current OS thread as being inside / outside a controlled execution.
    pub fn set_in_execution(on: bool) {
        IN_EXEC.with(|c| c.set(on));
        AT_POINT.with(|c| c.set(0));
    }

    /// Whether the facade is currently driven by the controlled scheduler.
    pub fn in_execution() -> bool {
        IN_EXEC.with(|c| c.get())
    }

    /// Select fine (every intercepted operation) or coarse (protocol points only) granularity.
    pub fn set_fine(on: bool) {
        FINE.with(|c| c.set(on));
    }

    /// Fine granularity selected?
    pub fn is_fine() -> bool {
        FINE.with(|c| c.get())
    }

    /// The id of the point that led to the current scheduling decision (0 = unmarked switch inside
    /// the runtime); cleared by reading.
    pub fn take_point() -> u32 {
        AT_POINT.with(|c| c.replace(0))
    }

    /// Number of marked points passed since the counter was last reset.
    pub fn points_passed() -> u64 {
        POINTS.with(|c| c.get())
    }

    /// Reset the marked-point counter.
    pub fn reset_points() {
        POINTS.with(|c| c.set(0));
    }
}

#[inline]
fn in_exec() -> bool {
    IN_EXEC.with(|c| c.get())
}

#[inline]
fn mark(id: u32) {
    AT_POINT.with(|c| c.set(id));
    POINTS.with(|c| c.set(c.get() + 1));
}

/// A named protocol point: a scheduling decision at every granularity.
#[inline]
pub fn point(id: u32) {
    if !in_exec() || std::thread::panicking() {
        return;
    }
    mark(id);
    switch();
}

#[inline]
fn fine_point(id: u32) {
    if FINE.with(|c| c.get()) {
        point(id);
    }
}

fn me() -> TaskId {
    ExecutionState::me()
}

fn block_current_and_switch(id: u32) {
    assert!(
        !std::thread::panicking(),
        "grevm-verif-rt: a task would have to block while unwinding (machinery limitation)"
    );
    ExecutionState::with(|s| s.current_mut().block(false));
    mark(id);
    switch();
}

fn unblock(task: TaskId) {
    ExecutionState::with(|s| {
        if s.in_cleanup() {
            return;
        }
        let t = s.get_mut(task);
        if !t.finished() {
            t.unblock();
        }
    });
}

// ------------------------------------------------------------------------------------------------
// sync
// ------------------------------------------------------------------------------------------------

/// `std::sync` / `parking_lot` look-alikes.
pub mod sync {
    use super::*;
    use std::cell::{RefCell, UnsafeCell};
    use std::ops::{Deref, DerefMut};

    pub use std::sync::Arc;

    /// Atomics with sequentially consistent behaviour; each operation is a fine point.
    pub mod atomic {
        use super::super::*;
        pub use std::sync::atomic::Ordering;
        use std::sync::atomic as std_atomic;

        /// Memory fence: executions are sequentially consistent here, so only a fine point.
        #[inline]
        pub fn fence(o: Ordering) {
            fine_point(pt::ATOMIC_RMW);
            std_atomic::fence(o)
        }

        macro_rules! atomic_int {
            ($name:ident, $std:ident, $t:ty) => {
                /// Facade atomic.
                #[derive(Debug, Default)]
                #[repr(transparent)]
                pub struct $name(std_atomic::$std);

                #[allow(missing_docs)]
                impl $name {
                    #[inline]
                    pub const fn new(v: $t) -> Self {
                        Self(std_atomic::$std::new(v))
                    }
                    #[inline]
                    pub fn load(&self, o: Ordering) -> $t {
                        fine_point(pt::ATOMIC_LOAD);
                        self.0.load(o)
                    }
                    #[inline]
                    pub fn store(&self, v: $t, o: Ordering) {
                        fine_point(pt::ATOMIC_STORE);
                        self.0.store(v, o)
                    }
                    #[inline]
                    pub fn swap(&self, v: $t, o: Ordering) -> $t {
                        fine_point(pt::ATOMIC_RMW);
                        self.0.swap(v, o)
                    }
                    #[inline]
                    pub fn compare_exchange(
                        &self,
                        c: $t,
                        n: $t,
                        s: Ordering,
                        f: Ordering,
                    ) -> Result<$t, $t> {
                        fine_point(pt::ATOMIC_RMW);
                        self.0.compare_exchange(c, n, s, f)
                    }
                    /// Never fails spuriously (strong), which is one of the permitted behaviours.
                    #[inline]
                    pub fn compare_exchange_weak(
                        &self,
                        c: $t,
                        n: $t,
                        s: Ordering,
                        f: Ordering,
                    ) -> Result<$t, $t> {
                        fine_point(pt::ATOMIC_RMW);
                        self.0.compare_exchange(c, n, s, f)
                    }
                    #[inline]
                    pub fn into_inner(self) -> $t {
                        self.0.into_inner()
                    }
                    #[inline]
                    pub fn get_mut(&mut self) -> &mut $t {
                        self.0.get_mut()
                    }
                    #[inline]
                    pub fn fetch_and(&self, v: $t, o: Ordering) -> $t {
                        fine_point(pt::ATOMIC_RMW);
                        self.0.fetch_and(v, o)
                    }
                    #[inline]
                    pub fn fetch_or(&self, v: $t, o: Ordering) -> $t {
                        fine_point(pt::ATOMIC_RMW);
                        self.0.fetch_or(v, o)
                    }
                    #[inline]
                    pub fn fetch_xor(&self, v: $t, o: Ordering) -> $t {
                        fine_point(pt::ATOMIC_RMW);
                        self.0.fetch_xor(v, o)
                    }
                    #[inline]
                    pub fn fetch_nand(&self, v: $t, o: Ordering) -> $t {
                        fine_point(pt::ATOMIC_RMW);
                        self.0.fetch_nand(v, o)
                    }
                    /// One read-modify-write step per attempt, like std's CAS loop.
                    #[inline]
                    pub fn fetch_update<F>(&self, s: Ordering, f: Ordering, mut func: F) -> Result<$t, $t>
                    where
                        F: FnMut($t) -> Option<$t>,
                    {
                        let mut prev = self.load(f);
                        while let Some(next) = func(prev) {
                            match self.compare_exchange_weak(prev, next, s, f) {
                                x @ Ok(_) => return x,
                                Err(p) => prev = p,
                            }
                        }
                        Err(prev)
                    }
                }
                impl From<$t> for $name {
                    fn from(v: $t) -> Self {
                        Self::new(v)
                    }
                }
            };
        }

        atomic_int!(AtomicUsize, AtomicUsize, usize);
        atomic_int!(AtomicIsize, AtomicIsize, isize);
        atomic_int!(AtomicU64, AtomicU64, u64);
        atomic_int!(AtomicI64, AtomicI64, i64);
        atomic_int!(AtomicU32, AtomicU32, u32);
        atomic_int!(AtomicI32, AtomicI32, i32);
        atomic_int!(AtomicU16, AtomicU16, u16);
        atomic_int!(AtomicU8, AtomicU8, u8);
        atomic_int!(AtomicBool, AtomicBool, bool);

        #[allow(missing_docs)]
        impl AtomicBool {
            #[inline]
            pub fn fetch_not(&self, o: Ordering) -> bool {
                fine_point(pt::ATOMIC_RMW);
                self.0.fetch_xor(true, o)
            }
        }

        macro_rules! atomic_arith {
            ($name:ident, $t:ty) => {
                #[allow(missing_docs)]
                impl $name {
                    #[inline]
                    pub fn fetch_add(&self, v: $t, o: Ordering) -> $t {
                        fine_point(pt::ATOMIC_RMW);
                        self.0.fetch_add(v, o)
                    }
                    #[inline]
                    pub fn fetch_sub(&self, v: $t, o: Ordering) -> $t {
                        fine_point(pt::ATOMIC_RMW);
                        self.0.fetch_sub(v, o)
                    }
                    #[inline]
                    pub fn fetch_min(&self, v: $t, o: Ordering) -> $t {
                        fine_point(pt::ATOMIC_RMW);
                        self.0.fetch_min(v, o)
                    }
                    #[inline]
                    pub fn fetch_max(&self, v: $t, o: Ordering) -> $t {
                        fine_point(pt::ATOMIC_RMW);
                        self.0.fetch_max(v, o)
                    }
                }
            };
        }
        atomic_arith!(AtomicUsize, usize);
        atomic_arith!(AtomicIsize, isize);
        atomic_arith!(AtomicU64, u64);
        atomic_arith!(AtomicI64, i64);
        atomic_arith!(AtomicU32, u32);
        atomic_arith!(AtomicI32, i32);
        atomic_arith!(AtomicU16, u16);
        atomic_arith!(AtomicU8, u8);
    }

    #[derive(Default)]
    struct Waiters(RefCell<Vec<TaskId>>);

    impl Waiters {
        fn wait(&self, id: u32) {
            assert!(in_exec(), "grevm-verif-rt: contended lock outside a controlled execution");
            self.0.borrow_mut().push(me());
            block_current_and_switch(id);
        }
        fn wake_all(&self) {
            let waiters: Vec<TaskId> = std::mem::take(&mut *self.0.borrow_mut());
            if waiters.is_empty() {
                return;
            }
            for w in waiters {
                unblock(w);
            }
        }
    }

    /// A `parking_lot::Mutex` look-alike: no poisoning, unlocks during unwinding, a contended
    /// acquire blocks the calling task (visible to the deadlock detector).
    pub struct Mutex<T: ?Sized> {
        held: Cell<bool>,
        waiters: Waiters,
        data: UnsafeCell<T>,
    }

    // SAFETY: tasks are coroutines on one OS thread, exactly one runs at a time; `held` gives mutual
    // exclusion across scheduling points.
    unsafe impl<T: ?Sized + Send> Send for Mutex<T> {}
    unsafe impl<T: ?Sized + Send> Sync for Mutex<T> {}

    impl<T> Mutex<T> {
        /// New unlocked mutex.
        pub const fn new(value: T) -> Self {
            Self {
                held: Cell::new(false),
                waiters: Waiters(RefCell::new(Vec::new())),
                data: UnsafeCell::new(value),
            }
        }

        /// Consume the mutex.
        pub fn into_inner(self) -> T {
            self.data.into_inner()
        }
    }

    impl<T: ?Sized> Mutex<T> {
        /// Acquire; a fine point, and a blocking point when contended.
        pub fn lock(&self) -> MutexGuard<'_, T> {
            fine_point(pt::MUTEX_LOCK);
            while self.held.get() {
                self.waiters.wait(pt::BLOCK_LOCK);
            }
            self.held.set(true);
            MutexGuard { lock: self }
        }

        /// Non-blocking acquire.
        pub fn try_lock(&self) -> Option<MutexGuard<'_, T>> {
            fine_point(pt::MUTEX_LOCK);
            if self.held.get() {
                None
            } else {
                self.held.set(true);
                Some(MutexGuard { lock: self })
            }
        }

        /// Exclusive access through `&mut`.
        pub fn get_mut(&mut self) -> &mut T {
            self.data.get_mut()
        }

        /// Whether the mutex is currently held.
        pub fn is_locked(&self) -> bool {
            fine_point(pt::MUTEX_LOCK);
            self.held.get()
        }
    }

    impl<T: Default> Default for Mutex<T> {
        fn default() -> Self {
            Self::new(T::default())
        }
    }

    impl<T: ?Sized> std::fmt::Debug for Mutex<T> {
        fn fmt(&self, f: &mut std::fmt::Formatter<'_>) -> std::fmt::Result {
            f.debug_struct("Mutex").field("held", &self.held.get()).finish_non_exhaustive()
        }
    }

    /// Guard of [`Mutex`].
    pub struct MutexGuard<'a, T: ?Sized> {
        lock: &'a Mutex<T>,
    }

    impl<T: ?Sized> Deref for MutexGuard<'_, T> {
        type Target = T;
        fn deref(&self) -> &T {
            // SAFETY: guarded by `held`
            unsafe { &*self.lock.data.get() }
        }
    }

    impl<T: ?Sized> DerefMut for MutexGuard<'_, T> {
        fn deref_mut(&mut self) -> &mut T {
            // SAFETY: guarded by `held`
            unsafe { &mut *self.lock.data.get() }
        }
    }

    impl<T: ?Sized> Drop for MutexGuard<'_, T> {
        fn drop(&mut self) {
            self.lock.held.set(false);
            self.lock.waiters.wake_all();
        }
    }

    impl<T: ?Sized + std::fmt::Debug> std::fmt::Debug for MutexGuard<'_, T> {
        fn fmt(&self, f: &mut std::fmt::Formatter<'_>) -> std::fmt::Result {
            (**self).fmt(f)
        }
    }

    /// A `parking_lot::RwLock` look-alike.
    pub struct RwLock<T: ?Sized> {
        readers: Cell<usize>,
        writer: Cell<bool>,
        waiters: Waiters,
        data: UnsafeCell<T>,
    }

    // SAFETY: see Mutex
    unsafe impl<T: ?Sized + Send> Send for RwLock<T> {}
    unsafe impl<T: ?Sized + Send + Sync> Sync for RwLock<T> {}

    impl<T> RwLock<T> {
        /// New unlocked lock.
        pub const fn new(value: T) -> Self {
            Self {
                readers: Cell::new(0),
                writer: Cell::new(false),
                waiters: Waiters(RefCell::new(Vec::new())),
                data: UnsafeCell::new(value),
            }
        }

        /// Consume the lock.
        pub fn into_inner(self) -> T {
            self.data.into_inner()
        }
    }

    impl<T: ?Sized> RwLock<T> {
        /// Shared acquire.
        pub fn read(&self) -> RwLockReadGuard<'_, T> {
            fine_point(pt::RWLOCK_READ);
            while self.writer.get() {
                self.waiters.wait(pt::BLOCK_LOCK);
            }
            self.readers.set(self.readers.get() + 1);
            RwLockReadGuard { lock: self }
        }

        /// Exclusive acquire.
        pub fn write(&self) -> RwLockWriteGuard<'_, T> {
            fine_point(pt::RWLOCK_WRITE);
            while self.writer.get() || self.readers.get() > 0 {
                self.waiters.wait(pt::BLOCK_LOCK);
            }
            self.writer.set(true);
            RwLockWriteGuard { lock: self }
        }

        /// Non-blocking shared acquire.
        pub fn try_read(&self) -> Option<RwLockReadGuard<'_, T>> {
            fine_point(pt::RWLOCK_READ);
            if self.writer.get() {
                return None;
            }
            self.readers.set(self.readers.get() + 1);
            Some(RwLockReadGuard { lock: self })
        }

        /// Non-blocking exclusive acquire.
        pub fn try_write(&self) -> Option<RwLockWriteGuard<'_, T>> {
            fine_point(pt::RWLOCK_WRITE);
            if self.writer.get() || self.readers.get() > 0 {
                return None;
            }
            self.writer.set(true);
            Some(RwLockWriteGuard { lock: self })
        }

        /// Exclusive access through `&mut`.
        pub fn get_mut(&mut self) -> &mut T {
            self.data.get_mut()
        }
    }

    impl<T: Default> Default for RwLock<T> {
        fn default() -> Self {
            Self::new(T::default())
        }
    }

    impl<T: ?Sized> std::fmt::Debug for RwLock<T> {
        fn fmt(&self, f: &mut std::fmt::Formatter<'_>) -> std::fmt::Result {
            f.debug_struct("RwLock").finish_non_exhaustive()
        }
    }

    /// Shared guard.
    pub struct RwLockReadGuard<'a, T: ?Sized> {
        lock: &'a RwLock<T>,
    }

    impl<T: ?Sized> Deref for RwLockReadGuard<'_, T> {
        type Target = T;
        fn deref(&self) -> &T {
            // SAFETY: no writer while readers > 0
            unsafe { &*self.lock.data.get() }
        }
    }

    impl<T: ?Sized> Drop for RwLockReadGuard<'_, T> {
        fn drop(&mut self) {
            self.lock.readers.set(self.lock.readers.get() - 1);
            if self.lock.readers.get() == 0 {
                self.lock.waiters.wake_all();
            }
        }
    }

    /// Exclusive guard.
    pub struct RwLockWriteGuard<'a, T: ?Sized> {
        lock: &'a RwLock<T>,
    }

    impl<T: ?Sized> Deref for RwLockWriteGuard<'_, T> {
        type Target = T;
        fn deref(&self) -> &T {
            // SAFETY: exclusive
            unsafe { &*self.lock.data.get() }
        }
    }

    impl<T: ?Sized> DerefMut for RwLockWriteGuard<'_, T> {
        fn deref_mut(&mut self) -> &mut T {
            // SAFETY: exclusive
            unsafe { &mut *self.lock.data.get() }
        }
    }

    impl<T: ?Sized> Drop for RwLockWriteGuard<'_, T> {
        fn drop(&mut self) {
            self.lock.writer.set(false);
            self.lock.waiters.wake_all();
        }
    }

    /// `std::sync::OnceLock` with a fine point before each operation. Initialisers must not contain
    /// schedule points (grevm's do not).
    #[derive(Debug)]
    pub struct OnceLock<T>(std::sync::OnceLock<T>);

    #[allow(missing_docs)]
    impl<T> OnceLock<T> {
        pub const fn new() -> Self {
            Self(std::sync::OnceLock::new())
        }
        pub fn get(&self) -> Option<&T> {
            fine_point(pt::ONCE);
            self.0.get()
        }
        pub fn set(&self, value: T) -> Result<(), T> {
            fine_point(pt::ONCE);
            self.0.set(value)
        }
        pub fn get_mut(&mut self) -> Option<&mut T> {
            self.0.get_mut()
        }
        pub fn take(&mut self) -> Option<T> {
            self.0.take()
        }
        pub fn get_or_init(&self, f: impl FnOnce() -> T) -> &T {
            fine_point(pt::ONCE);
            self.0.get_or_init(f)
        }
        pub fn into_inner(self) -> Option<T> {
            self.0.into_inner()
        }
    }

    impl<T> Default for OnceLock<T> {
        fn default() -> Self {
            Self::new()
        }
    }
}

// ------------------------------------------------------------------------------------------------
// thread
// ------------------------------------------------------------------------------------------------

/// `std::thread` look-alikes (scoped threads, park/unpark, yield).
pub mod thread {
    use super::*;
    use shuttle_engine::thread_support::thread_fn;
    use std::any::Any;
    use std::marker::PhantomData;
    use std::panic::{catch_unwind, AssertUnwindSafe, Location};
    use std::sync::atomic::{AtomicBool, AtomicUsize, Ordering};
    use std::time::Duration;

    pub use std::thread::{panicking, Result};

    /// Handle to a task.
    #[derive(Clone, Debug)]
    pub struct Thread {
        task: Option<TaskId>,
    }

    impl Thread {
        /// Make the park token available / wake the parked task. A fine point.
        pub fn unpark(&self) {
            let Some(task) = self.task else { return };
            if !in_exec() {
                return;
            }
            fine_point(pt::UNPARK);
            ExecutionState::with(|s| {
                if s.in_cleanup() {
                    return;
                }
                let t = s.get_mut(task);
                if !t.finished() {
                    t.unpark();
                }
            });
        }

        /// Task id as an integer (for diagnostics).
        pub fn task_index(&self) -> Option<usize> {
            self.task.map(usize::from)
        }
    }

    /// Current task.
    pub fn current() -> Thread {
        if in_exec() {
            Thread { task: Some(me()) }
        } else {
            Thread { task: None }
        }
    }

    /// Yield: a decision point at every granularity; the canonical schedule moves on to the next
    /// runnable task.
    pub fn yield_now() {
        if !in_exec() || std::thread::panicking() {
            return;
        }
        ExecutionState::request_yield();
        mark(pt::YIELD);
        switch();
    }

    /// Park **without timeout**: returns only after an `unpark` (token semantics as in std).
    pub fn park_timeout(_timeout: Duration) {
        park();
    }

    /// Sleeping is a yield: time does not exist under the controlled scheduler.
    pub fn sleep(_d: Duration) {
        yield_now();
    }

    /// Park.
    pub fn park() {
        if !in_exec() {
            return;
        }
        assert!(!std::thread::panicking(), "grevm-verif-rt: park while unwinding");
        let must_switch = ExecutionState::with(|s| s.current_mut().park());
        if must_switch {
            ExecutionState::request_yield();
            mark(pt::PARK);
            switch();
        }
    }

    /// Scope for spawning borrowed-data tasks; see [`scope`].
    pub struct Scope<'scope, 'env: 'scope> {
        num_running_threads: AtomicUsize,
        main_waiting: AtomicBool,
        main_task: TaskId,
        scope: PhantomData<&'scope mut &'scope ()>,
        env: PhantomData<&'env mut &'env ()>,
    }

    impl std::fmt::Debug for Scope<'_, '_> {
        fn fmt(&self, f: &mut std::fmt::Formatter<'_>) -> std::fmt::Result {
            f.debug_struct("Scope").finish_non_exhaustive()
        }
    }

    type Slot<T> = std::sync::Arc<std::sync::Mutex<Option<std::thread::Result<Result<T>>>>>;

    /// Join handle of a scoped task. `join` returns `Err(payload)` if the task panicked, like std.
    pub struct ScopedJoinHandle<'scope, T> {
        task: TaskId,
        result: Slot<T>,
        _marker: PhantomData<&'scope T>,
    }

    impl<T> std::fmt::Debug for ScopedJoinHandle<'_, T> {
        fn fmt(&self, f: &mut std::fmt::Formatter<'_>) -> std::fmt::Result {
            f.debug_struct("ScopedJoinHandle").field("task", &self.task).finish_non_exhaustive()
        }
    }

    // SAFETY: single OS thread; the handle is only used by the spawning task
    unsafe impl<T> Send for ScopedJoinHandle<'_, T> {}
    unsafe impl<T> Sync for ScopedJoinHandle<'_, T> {}

    impl<'scope> Scope<'scope, '_> {
        /// Spawn a scoped task. The body runs inside `catch_unwind` so that a panic is delivered
        /// to `join`, as with real threads.
        #[track_caller]
        pub fn spawn<F, T>(&'scope self, f: F) -> ScopedJoinHandle<'scope, T>
        where
            F: FnOnce() -> T + Send + 'scope,
            T: Send + 'scope,
        {
            assert!(in_exec(), "grevm-verif-rt: thread::scope outside a controlled execution");
            self.num_running_threads.fetch_add(1, Ordering::Relaxed);
            let body = move || -> Result<T> {
                let ret: Result<T> = catch_unwind(AssertUnwindSafe(f));
                // a decision point before the task disappears (fine granularity only)
                fine_point(pt::THREAD_EXIT);
                if self.num_running_threads.fetch_sub(1, Ordering::Relaxed) == 1 &&
                    self.main_waiting.load(Ordering::Relaxed)
                {
                    unblock(self.main_task);
                }
                ret
            };

            let stack_size = ExecutionState::with(|s| s.config.stack_size);
            let result: Slot<T> = std::sync::Arc::new(std::sync::Mutex::new(None));
            let task = {
                let result = std::sync::Arc::clone(&result);
                let f: Box<dyn FnOnce()> = Box::new(move || thread_fn(body, false, result));
                // SAFETY: the scope blocks until every spawned task has finished, so borrowed data
                // outlives the coroutine (same argument as std::thread::scope / shuttle's scope).
                let f: Box<dyn FnOnce() + 'static> = unsafe { std::mem::transmute(f) };
                mark(pt::SPAWN);
                ExecutionState::spawn_thread(f, stack_size, None, None, Location::caller())
            };
            ScopedJoinHandle { task, result, _marker: PhantomData }
        }
    }

    impl<T> ScopedJoinHandle<'_, T> {
        /// Wait for the task; `Err(payload)` if it panicked.
        pub fn join(self) -> Result<T> {
            fine_point(pt::JOIN);
            loop {
                let must_block = ExecutionState::with(|state| {
                    let me = state.current().id();
                    let target = state.get_mut(self.task);
                    if target.set_waiter(me) {
                        state.current_mut().block(false);
                        true
                    } else {
                        false
                    }
                });
                if !must_block {
                    break;
                }
                assert!(!std::thread::panicking(), "grevm-verif-rt: join while unwinding");
                mark(pt::BLOCK_JOIN);
                switch();
                if self.result.lock().unwrap().is_some() {
                    break;
                }
            }
            let outer = self.result.lock().unwrap().take().expect("joined task has a result");
            match outer {
                Ok(inner) => inner,
                Err(payload) => Err(payload),
            }
        }

        /// The task handle.
        pub fn thread(&self) -> Thread {
            Thread { task: Some(self.task) }
        }
    }

    /// `std::thread::scope`.
    pub fn scope<'env, F, T>(f: F) -> T
    where
        F: for<'scope> FnOnce(&'scope Scope<'scope, 'env>) -> T,
    {
        assert!(in_exec(), "grevm-verif-rt: thread::scope outside a controlled execution");
        let scope = Scope {
            num_running_threads: AtomicUsize::new(0),
            main_waiting: AtomicBool::new(false),
            main_task: me(),
            env: PhantomData,
            scope: PhantomData,
        };

        // Like std: if `f` panics, still wait for the children before unwinding further.
        let ret = catch_unwind(AssertUnwindSafe(|| f(&scope)));

        while scope.num_running_threads.load(Ordering::Relaxed) != 0 {
            scope.main_waiting.store(true, Ordering::Relaxed);
            ExecutionState::with(|s| s.current_mut().block(false));
            mark(pt::BLOCK_SCOPE);
            switch();
        }
        scope.main_waiting.store(false, Ordering::Relaxed);

        match ret {
            Ok(v) => v,
            Err(payload) => std::panic::resume_unwind(payload),
        }
    }

    /// Payload type of a panicking task.
    pub type Payload = Box<dyn Any + Send + 'static>;
}
