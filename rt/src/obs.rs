//! Observation callbacks: typed-by-kind events forwarded to an observer installed by the harness.
//! Payloads are passed as `&dyn Any` so that this crate does not depend on revm.

use std::any::Any;
use std::cell::RefCell;

#[allow(missing_docs)]
pub mod kind {
    pub const INCARNATION_START: u32 = 1; // txid, a = incarnation
    pub const INCARNATION_END: u32 = 2; // txid, a = incarnation, b = outcome code (see below)
    pub const VALIDATION: u32 = 3; // txid, a = incarnation, b = 1 valid / 0 conflict, c = timestamp
    pub const REWIND: u32 = 4; // txid = target index, a = timestamp
    pub const FINALIZED: u32 = 5; // txid, a = incarnation, b = unconfirmed ts, c = effective lower ts
    pub const COMMIT_BEGIN: u32 = 6; // txid; payload = (&ExecutionResult, &EvmState, Option<U256> reward) in harness types
    pub const COMMIT_END: u32 = 7; // txid, a = committed cursor after publication
    pub const ABORT: u32 = 8; // a = reason code
    pub const COMMIT_FALLBACK: u32 = 9; // txid: commit refused (nonce) -> sequential
    pub const ESTIMATE_READ: u32 = 10; // txid = reader, a = blocker
    pub const DEP_PARK: u32 = 11; // txid parked behind a = dep (usize::MAX = own commit boundary)
    pub const SEQ_REPLAY: u32 = 12; // sequential suffix replay from txid

    // INCARNATION_END outcome codes
    pub const END_OK: usize = 0;
    pub const END_CONFLICT: usize = 1;
    pub const END_EVM_ERROR: usize = 2;
    pub const END_INVALID_TX: usize = 3;

    // ABORT reason codes
    pub const ABORT_FATAL: usize = 1;
    pub const ABORT_COMMIT_ERROR: usize = 2;
    pub const ABORT_PARALLEL_ERROR: usize = 3;
    pub const ABORT_FALLBACK: usize = 4;
}

/// One observation.
pub struct Event<'a> {
    /// one of [`kind`]
    pub kind: u32,
    /// transaction index (or target index)
    pub txid: usize,
    /// kind-specific
    pub a: usize,
    /// kind-specific
    pub b: usize,
    /// kind-specific
    pub c: usize,
    /// kind-specific payload
    pub payload: Option<&'a dyn Any>,
}

impl std::fmt::Debug for Event<'_> {
    fn fmt(&self, f: &mut std::fmt::Formatter<'_>) -> std::fmt::Result {
        write!(f, "Event{{kind:{},txid:{},a:{},b:{},c:{}}}", self.kind, self.txid, self.a, self.b, self.c)
    }
}

type Observer = Box<dyn FnMut(&Event<'_>)>;

thread_local! {
    static OBSERVER: RefCell<Option<Observer>> = const { RefCell::new(None) };
}

/// Install (or remove) the observer of the current OS thread. All coroutines of the controlled
/// scheduler run on the installing thread.
pub fn set_observer(observer: Option<Observer>) {
    OBSERVER.with(|o| *o.borrow_mut() = observer);
}

/// Forward an event to the installed observer, if any. Never a scheduling point.
pub fn observe(event: Event<'_>) {
    OBSERVER.with(|o| {
        if let Ok(mut guard) = o.try_borrow_mut() {
            if let Some(f) = guard.as_mut() {
                f(&event);
            }
        }
    });
}

/// Convenience constructor without payload.
pub fn ev(kind: u32, txid: usize, a: usize, b: usize, c: usize) -> Event<'static> {
    Event { kind, txid, a, b, c, payload: None }
}
