//! Named schedule points. Ids < 100 are *fine* points (atomics, lock acquisitions, facade
//! internals); ids >= 100 are *protocol* points placed by hooks in grevm or by the harness.
#![allow(missing_docs)]

// ---- fine points (emitted by the facade itself) ----
pub const ATOMIC_LOAD: u32 = 1;
pub const ATOMIC_STORE: u32 = 2;
pub const ATOMIC_RMW: u32 = 3;
pub const MUTEX_LOCK: u32 = 4;
pub const RWLOCK_READ: u32 = 5;
pub const RWLOCK_WRITE: u32 = 6;
pub const ONCE: u32 = 7;
pub const UNPARK: u32 = 8;
pub const SPAWN: u32 = 9;
pub const JOIN: u32 = 10;
pub const THREAD_EXIT: u32 = 11;
/// Blocking/yielding events; these are always decision points, at any granularity.
pub const YIELD: u32 = 20;
pub const PARK: u32 = 21;
pub const BLOCK_LOCK: u32 = 22;
pub const BLOCK_JOIN: u32 = 23;
pub const BLOCK_SCOPE: u32 = 24;

pub const FIRST_PROTOCOL: u32 = 100;

// ---- protocol points (hooks in grevm) ----
pub const WORKER_NEXT: u32 = 100; // head of the worker claim loop
pub const VALIDATION_CLAIMED: u32 = 101; // after a validation claim, before the tx lock
pub const EXECUTION_CLAIMED: u32 = 102; // after an execution claim, before the tx lock
pub const EXEC_BEGIN: u32 = 103; // execute_task: status checked, before running revm
pub const EXEC_DONE: u32 = 104; // execute_task: revm finished, before result handling
pub const MV_READ: u32 = 105; // IncarnationDb: before a multi-version / history lookup
pub const MV_PUBLISH: u32 = 106; // IncarnationDb: before publishing one write
pub const HISTORY_RECORD: u32 = 107; // before beneficiary record/invalidate
pub const DEP_UPDATE: u32 = 108; // before tx_dependency.{add,remove,key_tx,commit}
pub const EXEC_STATUS: u32 = 109; // before status publication / executed()
pub const REWIND: u32 = 110; // before a validation rewind
pub const VALIDATE_TS: u32 = 111; // validate: before taking the timestamp
pub const VALIDATE_PROBE: u32 = 112; // validate: before each read-set probe
pub const VALIDATE_VERDICT: u32 = 113; // validate: before publishing the verdict
pub const FINALITY_READ: u32 = 114; // finality: before reading the validation cursor
pub const FINALITY_PUBLISH: u32 = 115; // finality: before publish_finality
pub const FINALITY_NOTIFY: u32 = 116; // finality: before notifying commit
pub const COMMIT_TAKE: u32 = 117; // commit loop: before taking a finalized result
pub const COMMIT_PUBLISH: u32 = 118; // commit loop: before publish_commit
pub const COMMIT_RELEASE: u32 = 119; // commit loop: before tx_dependency.commit
pub const ABORT: u32 = 120; // abort/cancel before the store
pub const RUN_ONCE: u32 = 121; // run_once before the CAS
pub const DB_FILL_STORAGE: u32 = 122; // ParallelStateView::db_storage between fetch and insert
pub const DB_FILL_BASIC: u32 = 123;
pub const DB_FILL_CODE: u32 = 124;
pub const COMMIT_APPLY: u32 = 125; // OrderedCommitter::commit before applying state
pub const FINALITY_LOCK: u32 = 126; // lock_finality_candidate: cursor read, before the tx lock
pub const VALIDATE_NOTIFY: u32 = 127; // validate: before the finality notification test
pub const ERROR_HEAD_CHECK: u32 = 128;
pub const CACHE_CLEAR: u32 = 129;
pub const REWIND_DONE: u32 = 130; // rewind_validation_to: after the index became claimable again
pub const EXECUTED_DONE: u32 = 131; // execute_task: after the execution frontier was published // apply_account_state: between the status change and the storage clear // execute_task error branch: before sampling the commit head

// ---- harness points ----
pub const HARNESS_DB: u32 = 200; // inside the harness database (a "slow database")
pub const HARNESS_PRECOMPILE: u32 = 201;
pub const HARNESS_ENTRY: u32 = 202; // C14: before calling an entry point
pub const HARNESS_OP: u32 = 203; // component drivers: between operations
