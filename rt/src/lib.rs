//! grevm-verif-rt: the facade that Galxe/grevm's synchronisation primitives resolve to when the
//! crate is compiled with `--cfg grevm_verif`.
//!
//! * backend `shuttle`: every intercepted operation is (optionally) a decision point of the
//!   controlled scheduler in `engines/sched-mc`; blocking is real blocking of a coroutine; `park`
//!   has no timeout.
//! * backend `loom`: thin adapters with the same API over loom's types, for the component models.
//!
//! Both backends expose: `sync::{Mutex, MutexGuard, RwLock, OnceLock, atomic::*}`,
//! `thread::{scope, park_timeout, yield_now, current, panicking, Thread}`, `point`, `observe`.

#[cfg(all(feature = "shuttle", feature = "loom"))]
compile_error!("grevm-verif-rt: select exactly one backend");

pub mod obs;
pub mod pt;

#[cfg(feature = "shuttle")]
mod shuttle_backend;
#[cfg(feature = "shuttle")]
pub use shuttle_backend::{ctl, point, sync, thread};

#[cfg(feature = "loom")]
mod loom_backend;
#[cfg(feature = "loom")]
pub use loom_backend::{point, sync, thread};

pub use obs::{observe, Event};
