//! Backend over loom: same API surface as the shuttle backend for the subset used by the
//! source-included component files (`cursor.rs`, `context.rs`, `wait.rs`, `tx_dependency.rs`).
//! loom explores interleavings *and* the stale reads that the declared orderings permit.

/// Protocol points are not scheduling points under loom (every atomic / lock access already is).
#[inline]
pub fn point(_id: u32) {}

/// `std::sync` / `parking_lot` look-alikes over loom.
pub mod sync {
    use std::ops::{Deref, DerefMut};

    pub use loom::sync::Arc;

    /// loom atomics (orderings are honoured by loom's memory model).
    pub mod atomic {
        pub use loom::sync::atomic::{fence, AtomicBool, AtomicI32, AtomicI64, AtomicIsize, AtomicU16, AtomicU32, AtomicU64, AtomicU8, AtomicUsize, Ordering};
    }

    /// `parking_lot::Mutex` API over `loom::sync::Mutex`.
    #[derive(Debug)]
    pub struct Mutex<T>(loom::sync::Mutex<T>);

    /// Guard.
    #[derive(Debug)]
    pub struct MutexGuard<'a, T>(loom::sync::MutexGuard<'a, T>);

    impl<T> Mutex<T> {
        /// New mutex.
        pub fn new(value: T) -> Self {
            Self(loom::sync::Mutex::new(value))
        }
        /// Acquire.
        pub fn lock(&self) -> MutexGuard<'_, T> {
            MutexGuard(self.0.lock().unwrap())
        }
        /// Consume.
        pub fn into_inner(self) -> T {
            self.0.into_inner().unwrap()
        }
        /// Non-blocking acquire.
        pub fn try_lock(&self) -> Option<MutexGuard<'_, T>> {
            self.0.try_lock().ok().map(MutexGuard)
        }
    }

    impl<T: Default> Default for Mutex<T> {
        fn default() -> Self {
            Self::new(T::default())
        }
    }

    impl<T> Deref for MutexGuard<'_, T> {
        type Target = T;
        fn deref(&self) -> &T {
            &self.0
        }
    }

    impl<T> DerefMut for MutexGuard<'_, T> {
        fn deref_mut(&mut self) -> &mut T {
            &mut self.0
        }
    }

    /// `parking_lot::RwLock` API over `loom::sync::RwLock`.
    #[derive(Debug)]
    pub struct RwLock<T>(loom::sync::RwLock<T>);

    impl<T> RwLock<T> {
        /// New lock.
        pub fn new(value: T) -> Self {
            Self(loom::sync::RwLock::new(value))
        }
        /// Shared.
        pub fn read(&self) -> loom::sync::RwLockReadGuard<'_, T> {
            self.0.read().unwrap()
        }
        /// Exclusive.
        pub fn write(&self) -> loom::sync::RwLockWriteGuard<'_, T> {
            self.0.write().unwrap()
        }
    }

    /// A write-once cell whose publication is visible to loom: the value is written before a
    /// Release store of the flag and read after an Acquire load (the guarantee std's `OnceLock`
    /// gives). Only `set`/`get` are needed by the included sources.
    pub struct OnceLock<T> {
        set: loom::sync::atomic::AtomicBool,
        claimed: loom::sync::atomic::AtomicBool,
        value: loom::cell::UnsafeCell<Option<T>>,
    }

    // SAFETY: the value is written once by the thread that won `claimed`, and read only after
    // `set` was observed with Acquire.
    unsafe impl<T: Send> Send for OnceLock<T> {}
    unsafe impl<T: Send + Sync> Sync for OnceLock<T> {}

    impl<T> OnceLock<T> {
        /// Empty cell.
        pub fn new() -> Self {
            Self {
                set: loom::sync::atomic::AtomicBool::new(false),
                claimed: loom::sync::atomic::AtomicBool::new(false),
                value: loom::cell::UnsafeCell::new(None),
            }
        }

        /// Write once.
        pub fn set(&self, value: T) -> Result<(), T> {
            use loom::sync::atomic::Ordering::*;
            if self.claimed.compare_exchange(false, true, AcqRel, Acquire).is_err() {
                return Err(value);
            }
            self.value.with_mut(|p| unsafe { *p = Some(value) });
            self.set.store(true, Release);
            Ok(())
        }

        /// Read if written.
        pub fn get(&self) -> Option<&T> {
            use loom::sync::atomic::Ordering::*;
            if !self.set.load(Acquire) {
                return None;
            }
            // SAFETY: written before the Release store observed above; never written again
            self.value.with(|p| unsafe { (*p).as_ref() })
        }
    }

    impl<T> Default for OnceLock<T> {
        fn default() -> Self {
            Self::new()
        }
    }

    impl<T> std::fmt::Debug for OnceLock<T> {
        fn fmt(&self, f: &mut std::fmt::Formatter<'_>) -> std::fmt::Result {
            f.debug_struct("OnceLock").finish_non_exhaustive()
        }
    }
}

/// `std::thread` look-alikes over loom.
pub mod thread {
    use std::time::Duration;

    pub use loom::thread::{spawn, yield_now, JoinHandle};
    pub use std::thread::panicking;

    /// Handle to a loom thread.
    #[derive(Clone, Debug)]
    pub struct Thread(loom::thread::Thread);

    impl Thread {
        /// Unpark.
        pub fn unpark(&self) {
            self.0.unpark();
        }
    }

    /// Current thread.
    pub fn current() -> Thread {
        Thread(loom::thread::current())
    }

    /// Park **without timeout**: a lost wake-up is a loom deadlock.
    pub fn park_timeout(_timeout: Duration) {
        loom::thread::park();
    }

    /// Park.
    pub fn park() {
        loom::thread::park();
    }

    /// Sleeping is a yield.
    pub fn sleep(_d: Duration) {
        loom::thread::yield_now();
    }
}
