//! Template sweeps: all blocks of length 1..=n over an alphabet of transaction templates.

use crate::case::Case;
use crate::world::*;
use revm_context::TxEnv;
use revm_primitives::{hardfork::SpecId, Address};
use std::collections::BTreeMap;
use std::sync::Arc;

#[derive(Clone)]
pub struct Template {
    pub label: &'static str,
    pub sender: Address,
    /// resource tags; two templates conflict if they share a tag
    pub tags: &'static [&'static str],
    pub min_spec: SpecId,
    /// first spec in which the template is no longer expressible (e.g. a zero gas price under a
    /// non-zero base fee)
    pub until_spec: Option<SpecId>,
    /// nonce offset relative to "pre-state nonce + earlier txs of this sender in the block"
    pub nonce_skew: i64,
    /// accounts other than the sender whose nonce this transaction bumps when valid (EIP-7702
    /// authorities), so that later templates can compute authorisation nonces
    pub bumps: Vec<Address>,
    /// the sender's nonce is computed from its own earlier transactions only, ignoring nonce bumps
    /// caused by authorisations (a transaction that would have been valid without them)
    pub stale_nonce: bool,
    /// (sender nonce, nonce-of-any-account) -> transaction
    pub build: Arc<dyn Fn(u64, &dyn Fn(Address) -> u64) -> TxEnv + Send + Sync>,
}

pub fn tpl(
    label: &'static str,
    sender: Address,
    tags: &'static [&'static str],
    build: impl Fn(u64) -> TxEnv + Send + Sync + 'static,
) -> Template {
    Template {
        label,
        sender,
        tags,
        min_spec: SpecId::FRONTIER,
        until_spec: None,
        nonce_skew: 0,
        bumps: vec![],
        stale_nonce: false,
        build: Arc::new(move |n, _| build(n)),
    }
}

/// Template whose transaction depends on the current nonce of other accounts (authorisations).
pub fn tpl_auth(
    label: &'static str,
    sender: Address,
    tags: &'static [&'static str],
    bumps: Vec<Address>,
    build: impl Fn(u64, &dyn Fn(Address) -> u64) -> TxEnv + Send + Sync + 'static,
) -> Template {
    Template { label, sender, tags, min_spec: SpecId::PRAGUE, until_spec: None, nonce_skew: 0, bumps, stale_nonce: false, build: Arc::new(build) }
}

impl Template {
    pub fn from_spec(mut self, s: SpecId) -> Self {
        self.min_spec = s;
        self
    }
    pub fn until_spec(mut self, s: SpecId) -> Self {
        self.until_spec = Some(s);
        self
    }
    pub fn skew(mut self, k: i64) -> Self {
        self.nonce_skew = k;
        self
    }
    pub fn stale(mut self) -> Self {
        self.stale_nonce = true;
        self
    }
}

/// Enumerate index sequences of length 1..=max_len over `n` templates.
pub fn sequences(n: usize, max_len: usize) -> Vec<Vec<usize>> {
    let mut out = Vec::new();
    let mut cur: Vec<Vec<usize>> = vec![vec![]];
    for _ in 0..max_len {
        let mut next = Vec::new();
        for s in &cur {
            for t in 0..n {
                let mut s2 = s.clone();
                s2.push(t);
                next.push(s2);
            }
        }
        out.extend(next.iter().cloned());
        cur = next;
    }
    out
}

pub fn shares_tag(templates: &[Template], seq: &[usize]) -> bool {
    for i in 0..seq.len() {
        for j in i + 1..seq.len() {
            let (a, b) = (&templates[seq[i]], &templates[seq[j]]);
            if a.sender == b.sender || a.tags.iter().any(|t| b.tags.contains(t)) {
                return true;
            }
        }
    }
    false
}

/// Build the case for one sequence. Nonces: pre-state nonce of the sender + number of earlier
/// transactions of the same sender in the block + the template's skew. (If an earlier one turns out
/// to be invalid the later one is nonce-too-high: still a legitimate block.)
pub fn build_case(
    family: &str,
    spec: SpecId,
    db: &MemDb,
    templates: &[Template],
    seq: &[usize],
) -> Option<Case> {
    let mut used: BTreeMap<Address, u64> = BTreeMap::new();
    let mut sent: BTreeMap<Address, u64> = BTreeMap::new();
    let mut txs = Vec::new();
    for &t in seq {
        let tp = &templates[t];
        if !spec.is_enabled_in(tp.min_spec) || tp.until_spec.is_some_and(|u| spec.is_enabled_in(u)) {
            return None;
        }
        let base = db.accounts.get(&tp.sender).map_or(0, |a| a.info.nonce);
        let k = used.entry(tp.sender).or_insert(0);
        let own = sent.entry(tp.sender).or_insert(0);
        let nonce = base.wrapping_add(if tp.stale_nonce { *own } else { *k }).wrapping_add_signed(tp.nonce_skew);
        *k += 1;
        *own += 1;
        let mut tx = {
            let used_ref = &used;
            let nonce_of = move |a: Address| -> u64 {
                db.accounts.get(&a).map_or(0, |x| x.info.nonce) + used_ref.get(&a).copied().unwrap_or(0)
            };
            (tp.build)(nonce, &nonce_of)
        };
        for b in &tp.bumps {
            *used.entry(*b).or_insert(0) += 1;
        }
        if !spec.is_enabled_in(SpecId::LONDON) && tx.tx_type == 2 {
            return None;
        }
        if !spec.is_enabled_in(SpecId::BERLIN) {
            tx.tx_type = 0;
        }
        txs.push((tp.label.to_string(), tx));
    }
    let name = format!(
        "{family}:{}:[{}]",
        spec_name(spec),
        seq.iter().map(|&t| templates[t].label).collect::<Vec<_>>().join(";")
    );
    Some(Case::new(name, spec, db.clone(), txs))
}
