//! C09 — in-block code changes (CREATE, EIP-7702 set / re-point / clear) reach later transactions.

use super::sweep::*;
use super::*;
use crate::world::*;
use revm_primitives::{hardfork::SpecId, Address, U256};

const F1: u64 = 5;

pub fn a() -> Address {
    eoa(8)
}
pub fn b() -> Address {
    eoa(9)
}
pub fn z_addr() -> Address {
    create2_address(contract(F1), 3, &kit::vault_init())
}
const T1: u64 = 0; // incr
const T2: u64 = 9; // store

pub fn world() -> MemDb {
    let mut db = MemDb::default();
    for i in 0..4 {
        db.fund(eoa(i), U256::from(10 * ETHER), 0);
    }
    db.fund(a(), U256::from(10 * ETHER), 0);
    db.fund(b(), U256::from(10 * ETHER), 0);
    db.deploy(contract(T1), kit::incr());
    db.deploy(contract(T2), kit::store());
    db.deploy(contract(3), kit::probe());
    db.deploy(contract(8), kit::probe_slot());
    db.deploy(contract(F1), kit::factory(&kit::vault_init()));
    db
}

pub fn templates() -> Vec<Template> {
    let (a, b, z) = (a(), b(), z_addr());
    vec![
        tpl_auth("set(A>T1)+call(A,1)(e2)", eoa(2), &["A"], vec![a], move |n, nonce_of| {
            with_auths(call(eoa(2), n, a, &[word(1)]), vec![authorization(a, nonce_of(a), contract(T1))])
        }),
        tpl_auth("repoint(A>T2)+call(A,2,55)(e3)", eoa(3), &["A"], vec![a], move |n, nonce_of| {
            with_auths(call(eoa(3), n, a, &[word(2), word(55)]), vec![authorization(a, nonce_of(a), contract(T2))])
        }),
        tpl_auth("clear(A)(e2)", eoa(2), &["A"], vec![a], move |n, nonce_of| {
            with_auths(call(eoa(2), n, eoa(1), &[]), vec![authorization(a, nonce_of(a), Address::ZERO)])
        }),
        tpl_auth("wrongnonce(A>T1)(e3)", eoa(3), &["A"], vec![], move |n, nonce_of| {
            with_auths(call(eoa(3), n, a, &[word(1)]), vec![authorization(a, nonce_of(a) + 7, contract(T1))])
        }),
        tpl_auth("two(A>T1,B>T2)(e2)", eoa(2), &["A", "B"], vec![a, b], move |n, nonce_of| {
            with_auths(
                call(eoa(2), n, b, &[word(4), word(44)]),
                vec![authorization(a, nonce_of(a), contract(T1)), authorization(b, nonce_of(b), contract(T2))],
            )
        }),
        tpl_auth("repeated(A>T1,A>T2)(e3)", eoa(3), &["A"], vec![a, a], move |n, nonce_of| {
            with_auths(
                call(eoa(3), n, a, &[word(2), word(77)]),
                vec![authorization(a, nonce_of(a), contract(T1)), authorization(a, nonce_of(a) + 1, contract(T2))],
            )
        }),
        tpl("call(A,1)(e0)", eoa(0), &["A"], move |n| call(eoa(0), n, a, &[word(1)])),
        tpl("call(A,2,66)(e1)", eoa(1), &["A"], move |n| call(eoa(1), n, a, &[word(2), word(66)])),
        tpl("probe(A)(e3)", eoa(3), &["A"], move |n| call(eoa(3), n, contract(3), &[word_addr(a)])),
        tpl("from-A(A>e1)", a, &["A"], move |n| transfer(a, n, eoa(1), 5)),
        tpl_auth("selfauth(A>T1)(A)", a, &["A"], vec![a], move |n, nonce_of| {
            with_auths(call(a, n, a, &[word(1)]), vec![authorization(a, nonce_of(a), contract(T1))])
        }),
        tpl("call(B,4,1)(e0)", eoa(0), &["B"], move |n| call(eoa(0), n, b, &[word(4), word(1)])),
        tpl("deploy(Z)(e1)", eoa(1), &["Z"], |n| tx(eoa(1), n, Some(contract(F1)), 0, calldata(&[word(3)]))),
        tpl("probe(Z)(e3)", eoa(3), &["Z"], move |n| call(eoa(3), n, contract(3), &[word_addr(z)])),
        tpl("Z.set(3,9)(e0)", eoa(0), &["Z"], move |n| call(eoa(0), n, z, &[word(3), word(9)])),
        tpl("probeslot(Z,0)(e2)", eoa(2), &["Z"], move |n| call(eoa(2), n, contract(8), &[word_addr(z), word(0)])),
        // invalid authorisations (skipped: no nonce bump, no code) and the any-chain form (valid)
        tpl_auth("badchain(A>T1)+call(A,1)(e2)", eoa(2), &["A"], vec![], move |n, nonce_of| {
            with_auths(call(eoa(2), n, a, &[word(1)]), vec![authorization_ext(a, nonce_of(a), contract(T1), 5, true)])
        }),
        tpl_auth("chain0(A>T2)+call(A,2,56)(e3)", eoa(3), &["A"], vec![a], move |n, nonce_of| {
            with_auths(call(eoa(3), n, a, &[word(2), word(56)]), vec![authorization_ext(a, nonce_of(a), contract(T2), 0, true)])
        }),
        tpl_auth("unrecoverable(A>T1)+call(A,1)(e2)", eoa(2), &["A"], vec![], move |n, nonce_of| {
            with_auths(call(eoa(2), n, a, &[word(1)]), vec![authorization_ext(a, nonce_of(a), contract(T1), 1, false)])
        }),
        tpl_auth("authority-has-code(T1>T2)+call(T1,1)(e3)", eoa(3), &["T1"], vec![], move |n, _| {
            with_auths(call(eoa(3), n, contract(T1), &[word(1)]), vec![authorization(contract(T1), 1, contract(T2))])
        }),
        tpl("call(T1,1)(e0)", eoa(0), &["T1"], move |n| call(eoa(0), n, contract(T1), &[word(1)])),
    ]
}

// ---- deployment shapes across fork rule sets ----------------------------------------------------
// (seeded change C09c: "installing code always bumps the nonce" is false before EIP-161.)
// Top-level create transactions and CREATE from a factory, onto fresh addresses and onto addresses
// that already exist with a balance (nonce 0, no code), with and without an endowment, followed by
// callers and inspectors of the new code, from Frontier to Cancun.

const F2: u64 = 15; // CREATE factory (nonce-derived addresses)

fn p_top(prefunded: bool) -> Address {
    // address of the contract created by the first transaction of e1 (prefunded) / e2 (fresh)
    if prefunded { eoa(1).create(0) } else { eoa(2).create(0) }
}
fn p_factory() -> Address {
    contract(F2).create(1)
}

pub fn deploy_world() -> MemDb {
    let mut db = world();
    db.deploy(contract(F2), kit::factory_create(&kit::vault_init()));
    // pre-existing, code-less, nonce 0 accounts at the addresses the block will deploy to
    db.fund(p_top(true), U256::from(77u64), 0);
    db.fund(p_factory(), U256::from(88u64), 0);
    db
}

pub fn deploy_templates() -> Vec<Template> {
    let (pt, pf, pfac) = (p_top(true), p_top(false), p_factory());
    vec![
        tpl("createtx(e1)>Pt", eoa(1), &["Pt"], |n| tx(eoa(1), n, None, 0, kit::vault_init().into())),
        tpl("createtx(e2)>Pf", eoa(2), &["Pf"], |n| tx(eoa(2), n, None, 3, kit::vault_init().into())),
        tpl("factory.create(e3)>Pfac", eoa(3), &["Pfac"], |n| tx(eoa(3), n, Some(contract(F2)), 0, Default::default())),
        tpl("probe(Pt)(e0)", eoa(0), &["Pt"], move |n| call(eoa(0), n, contract(3), &[word_addr(pt)])),
        tpl("Pt.set(3,9)(e3)", eoa(3), &["Pt"], move |n| call(eoa(3), n, pt, &[word(3), word(9)])),
        tpl("probeslot(Pt,1)(e2)", eoa(2), &["Pt"], move |n| call(eoa(2), n, contract(8), &[word_addr(pt), word(1)])),
        tpl("probe(Pf)(e0)", eoa(0), &["Pf"], move |n| call(eoa(0), n, contract(3), &[word_addr(pf)])),
        tpl("Pf.set(3,9)(e1)", eoa(1), &["Pf"], move |n| call(eoa(1), n, pf, &[word(3), word(9)])),
        tpl("probe(Pfac)(e0)", eoa(0), &["Pfac"], move |n| call(eoa(0), n, contract(3), &[word_addr(pfac)])),
        tpl("Pfac.set(3,9)(e1)", eoa(1), &["Pfac"], move |n| call(eoa(1), n, pfac, &[word(3), word(9)])),
        tpl("Pfac.destroy(e2)", eoa(2), &["Pfac"], move |n| tx(eoa(2), n, Some(pfac), 0, Default::default())),
    ]
}

fn deploy_jobs(tier: Tier, v: &mut Vec<Job>) {
    let db = deploy_world();
    let ts = deploy_templates();
    let specs: &[SpecId] = match tier {
        Tier::Quick => &[SpecId::FRONTIER, SpecId::TANGERINE, SpecId::SPURIOUS_DRAGON, SpecId::CANCUN],
        Tier::Thorough => &[
            SpecId::FRONTIER,
            SpecId::HOMESTEAD,
            SpecId::TANGERINE,
            SpecId::SPURIOUS_DRAGON,
            SpecId::BYZANTIUM,
            SpecId::BERLIN,
            SpecId::LONDON,
            SpecId::CANCUN,
            SpecId::PRAGUE,
        ],
    };
    for seq in sequences(ts.len(), 3) {
        // a deployment first, then only transactions about the same address
        if seq.len() < 2 || seq[0] > 2 || !seq[1..].iter().all(|&t| t > 2 && ts[t].tags[0] == ts[seq[0]].tags[0]) {
            continue;
        }
        if seq.len() == 3 && seq[1] == seq[2] {
            continue;
        }
        for &spec in specs {
            let Some(case) = build_case("c09d", spec, &db, &ts, &seq) else { continue };
            let bound = match (tier, seq.len()) {
                (Tier::Quick, 2) => 2,
                (Tier::Quick, _) => 1,
                (Tier::Thorough, 2) => 3,
                (Tier::Thorough, _) => 2,
            };
            v.push(pipeline_job("c09-deploy", &case, &RunCfg::parallel(2), COARSE, bound, false));
            if seq.len() == 2 {
                v.push(pipeline_job("c09-deploy", &case, &RunCfg::sequential(), COARSE, 0, false));
            }
        }
    }
}

// ---- accounts that are already delegated when the block starts ------------------------------------
// (seeded change C09c: a worker-local code cache keyed by the code hash of a separately read
// account record.) Two authorities share one designator before the block; one of them is
// re-pointed or cleared in the block while the other is only called and inspected; the database is
// "slow" (a schedule point inside every fetch), so a reader can sit between its account read and
// its code read while the re-pointing transaction publishes.

pub fn predelegated_world() -> MemDb {
    let mut db = world();
    db.delegate(a(), contract(T1));
    db.delegate(b(), contract(T1));
    db
}

pub fn predelegated_templates() -> Vec<Template> {
    let (a, b) = (a(), b());
    vec![
        tpl_auth("repoint(A>T2)+call(A,2,55)(e3)", eoa(3), &["A"], vec![a], move |n, nonce_of| {
            with_auths(call(eoa(3), n, a, &[word(2), word(55)]), vec![authorization(a, nonce_of(a), contract(T2))])
        }),
        tpl_auth("clear(A)(e2)", eoa(2), &["A"], vec![a], move |n, nonce_of| {
            with_auths(call(eoa(2), n, eoa(1), &[]), vec![authorization(a, nonce_of(a), Address::ZERO)])
        }),
        tpl("call(A,1)(e0)", eoa(0), &["A"], move |n| call(eoa(0), n, a, &[word(1)])),
        tpl("call(B,1)(e1)", eoa(1), &["A"], move |n| call(eoa(1), n, b, &[word(1)])),
        tpl("probe(A)(e0)", eoa(0), &["A"], move |n| call(eoa(0), n, contract(3), &[word_addr(a)])),
        tpl("probe(B)(e1)", eoa(1), &["A"], move |n| call(eoa(1), n, contract(3), &[word_addr(b)])),
        tpl("call(B,2,66)(e0)", eoa(0), &["A"], move |n| call(eoa(0), n, b, &[word(2), word(66)])),
    ]
}

fn predelegated_jobs(tier: Tier, v: &mut Vec<Job>) {
    let db = predelegated_world();
    let ts = predelegated_templates();
    for seq in sequences(ts.len(), 3) {
        // a re-pointing or clearing transaction somewhere, at least one other transaction
        if seq.len() < 2 || !seq.iter().any(|&t| t <= 1) || seq.iter().all(|&t| t <= 1) {
            continue;
        }
        if seq.len() == 3 && (seq[0] == seq[1] || seq[1] == seq[2]) {
            continue;
        }
        let Some(case) = build_case("c09p", SpecId::PRAGUE, &db, &ts, &seq) else { continue };
        let mut run = RunCfg::parallel(2);
        run.slow_db = true;
        let bound = match (tier, seq.len()) {
            (Tier::Quick, 2) => if seq[0] <= 1 { 2 } else { 1 },
            // quick: bound 2 where a reader of A is followed by a toucher of B after the change
            (Tier::Quick, _) => if seq[0] <= 1 && matches!(seq[1], 2 | 4) && matches!(seq[2], 3 | 5 | 6) { 2 } else { 1 },
            (Tier::Thorough, 2) => 3,
            (Tier::Thorough, _) => 3,
        };
        v.push(pipeline_job("c09-predelegated", &case, &run, COARSE, bound, bound >= 3));
    }
}

pub fn jobs(tier: Tier) -> Vec<Job> {
    let db = world();
    let templates = templates();
    let mut v = Vec::new();
    deploy_jobs(tier, &mut v);
    predelegated_jobs(tier, &mut v);
    let specs: &[SpecId] = match tier {
        Tier::Quick => &[SpecId::CANCUN, SpecId::PRAGUE],
        Tier::Thorough => &[SpecId::SHANGHAI, SpecId::CANCUN, SpecId::PRAGUE, SpecId::OSAKA],
    };
    for seq in sequences(templates.len(), 3) {
        if seq.len() < 2 || !shares_tag(&templates, &seq) {
            continue;
        }
        if seq.len() == 3 {
            if !(shares_tag(&templates, &seq[0..2]) && shares_tag(&templates, &seq[1..3])) {
                continue;
            }
            if tier == Tier::Quick && (seq[0] * 7 + seq[1] * 3 + seq[2]) % 4 != 0 {
                continue; // quick visits a quarter of the length-3 blocks (thorough: all)
            }
            if tier == Tier::Quick && seq.iter().any(|&t| t >= 16) {
                continue; // quick: the invalid-authorisation templates in blocks of two
            }
        }
        for &spec in specs {
            let Some(case) = build_case("c09", spec, &db, &templates, &seq) else { continue };
            let bound = match (tier, seq.len()) {
                // quick: bound 2 on the pairs that are both about the delegated account A
                // quick: bound 2 on the pairs "code of A changes, then A is used"
                (Tier::Quick, 2)
                    if spec == SpecId::PRAGUE &&
                        seq.iter().all(|&t| templates[t].tags.contains(&"A")) &&
                        ["set(", "repoint(", "clear(", "two(", "repeated(", "selfauth(", "chain0("].iter().any(|k| templates[seq[0]].label.starts_with(k)) =>
                {
                    2
                }
                (Tier::Quick, _) => 1,
                (Tier::Thorough, 2) => 3,
                (Tier::Thorough, _) => 2,
            };
            v.push(pipeline_job("c09-code", &case, &RunCfg::parallel(2), COARSE, bound, false));
        }
    }
    // Code and Basic are versioned separately: racing readers at fine granularity
    let sharp: &[&[&str]] = &[
        &["set(A>T1)+call(A,1)(e2)", "repoint(A>T2)+call(A,2,55)(e3)", "call(A,2,66)(e1)"],
        &["set(A>T1)+call(A,1)(e2)", "clear(A)(e2)", "call(A,1)(e0)"],
        &["set(A>T1)+call(A,1)(e2)", "probe(A)(e3)"],
        &["repeated(A>T1,A>T2)(e3)", "call(A,2,66)(e1)"],
        &["selfauth(A>T1)(A)", "from-A(A>e1)", "call(A,1)(e0)"],
        &["deploy(Z)(e1)", "probe(Z)(e3)"],
    ];
    for labels in sharp {
        let seq: Vec<usize> = labels.iter().map(|l| templates.iter().position(|t| t.label == *l).unwrap()).collect();
        let case = build_case("c09", SpecId::PRAGUE, &db, &templates, &seq).unwrap();
        match tier {
            Tier::Quick => {
                v.push(pipeline_job("c09-race", &case, &RunCfg::parallel(2), FINE, 1, false));
                v.push(pipeline_job("c09-race", &case, &RunCfg::parallel(3), COARSE, 1, false));
            }
            Tier::Thorough => {
                v.push(pipeline_job("c09-race", &case, &RunCfg::parallel(2), FINE, 2, true));
                v.push(pipeline_job("c09-race", &case, &RunCfg::parallel(2), COARSE, 3, true));
            }
        }
    }
    v
}
