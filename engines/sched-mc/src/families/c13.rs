//! C13 — the delegated-balance reserve keeps an account's later transactions fundable.
//!
//! Blocks: a delegated account A, k later own transactions of A, one transaction whose execution
//! moves value out of A (CALL value / CREATE endowment / SELFDESTRUCT) or not, at boundary
//! balances, with inner reverts, credits before the debit and an authorisation list in the debiting
//! transaction; policy on/off; both paths; all schedules within the bound.
//!
//! Oracle: an independent evaluation of the rule from the block's parameters (surviving debit d out
//! of A, A's balance P before the first debit incl. earlier credits of the same transaction, the
//! saturating sum S of the maximum costs of A's later own transactions):
//!   violation  <=>  d > 0  and  S > 0  and  P - d < min(P, S).
//! No violation (or policy off): the observation equals stock revm. Violation: the transaction is a
//! `Revert` with empty output, charged the gas the execution spent, nothing but the nonce bump / fee
//! / authorisation effects is applied, A keeps its balance, A's later transactions are all executed
//! (never skipped for lack of funds), and the whole observation equals the forced-sequential run.

use super::*;
use crate::case::run_grevm;
use crate::world::*;
use grevm::{DelegatedSafetyConfig, InvalidTransaction, TxExecutionOutcome};
use revm_context::result::ExecutionResult;
use revm_primitives::{hardfork::SpecId, Address, U256};

fn a() -> Address {
    eoa(8)
}
fn sink() -> Address {
    fresh(9)
}
const SPENDER: u64 = 41;
const ENDOWER: u64 = 42;
const BOMB: u64 = 43;
const LATER_VALUE: u128 = 1000;
const GAS_PRICE: u128 = 10;
/// maximum cost of one of A's later own transfers
const C: u128 = 21_000 * GAS_PRICE + LATER_VALUE;

#[derive(Clone, Copy, Debug, PartialEq, Eq)]
pub enum Debit {
    CallValue,
    CreateEndowment,
    SelfDestruct,
    None,
    /// A itself sends a plain transfer (top-level value only: excluded from the rule)
    OwnTopLevelValue,
}

#[derive(Clone, Copy, Debug, PartialEq, Eq)]
pub enum Variant {
    Plain,
    InnerRevert,
    CreditBefore,
    AuthInDebitTx,
    FundedByEarlierTx,
    /// the recipient sends the value straight back: a surviving debit, but no net loss
    Refunded,
    /// the delegated account is reached through an ordinary contract (sponsor -> relay -> A) and
    /// the inner frames survive: the top-level target carries no designator
    Nested,
    /// two debits in one execution: the amount to the sink first, then a little to a contract that
    /// sends it straight back (the protected balance is the one before the *first* debit)
    DustAfter,
    /// the same two debits in the other order
    DustBefore,
    /// the debiting transaction is a *create transaction* whose constructor calls the delegated
    /// account (a violation has to restore the create transaction's sender nonce by hand)
    ViaCreateTx,
    /// the delegated code earns an execution refund (clears a storage slot of the account) before
    /// it moves the value: a charged revert discards that refund with the rest of the execution
    WithRefund,
    /// A itself sends the debiting transaction *to itself* with a value equal to the inner debit:
    /// revm journals no transfer for from == to, so the exclusion of the top-level value must not
    /// swallow the delegated code's transfer of the same amount (seeded C13e)
    SelfCall,
}

#[derive(Clone, Copy, Debug, PartialEq, Eq)]
pub enum Bal {
    Ample,
    Exact,
    ExactMinus1,
    BelowFutureCost,
}

pub struct Block {
    pub case: Case,
    pub debit_tx: usize,
    pub violation: bool,
    pub later: Vec<usize>,
    pub a_balance_if_violation: U256,
    /// A could pay for all its own transactions at the time of the debit
    pub fundable: bool,
}

/// `v`: the amount the delegated code tries to move out of A.
pub fn block(debit: Debit, variant: Variant, bal: Bal, k: usize, spec: SpecId) -> Option<Block> {
    block_ext(debit, variant, bal, k, spec, false)
}

/// `replayed`: the block starts with two valid transfers and a nonce-too-low transaction of an
/// unrelated sender (the ordered commit refuses it, so the parallel path replays the suffix
/// sequentially from a committed prefix of length 2), followed by an *earlier* own transaction of A:
/// when the debit is judged, that transaction is in the past and must not count as future cost.
pub fn block_ext(debit: Debit, variant: Variant, bal: Bal, k: usize, spec: SpecId, replayed: bool) -> Option<Block> {
    let v: u128 = 50_000;
    let credit: u128 = if variant == Variant::CreditBefore { 7_000 } else { 0 };
    let s: u128 = C * k as u128; // sum of A's later maximum costs
    // balance of A at the start of the debiting transaction
    let own_tx_cost = if debit == Debit::OwnTopLevelValue { 21_000 * GAS_PRICE } else { 0 };
    // SELFDESTRUCT sends everything, whatever v is
    let b0: u128 = match bal {
        Bal::Ample => 10 * ETHER,
        // after the debit exactly min(P, S) remains
        Bal::Exact => s + v + own_tx_cost - credit.min(s + v),
        Bal::ExactMinus1 => (s + v + own_tx_cost - credit.min(s + v)).checked_sub(1)?,
        Bal::BelowFutureCost => (s / 2).max(v + own_tx_cost + 1),
    };
    // self-call: A pays for the debiting transaction itself, and the rule inspects the balance
    // *after* the caller's reimbursement. With a gas limit of 80 000 at price 10 (about 77 700 gas
    // are used) A has 100 000 before the debit and about 72 600 at the end: less than
    // min(100 000, s) for every k >= 1, by a margin that does not depend on the exact gas figure.
    let self_call = variant == Variant::SelfCall;
    if self_call && (debit != Debit::CallValue || bal != Bal::BelowFutureCost || k == 0) {
        return None;
    }
    let b0 = if self_call { 900_000 } else { b0 };
    if k == 0 && bal != Bal::Ample {
        return None;
    }
    if debit == Debit::SelfDestruct && bal != Bal::Ample {
        return None; // the whole balance leaves: covered by Ample (violation iff k > 0)
    }
    let funded_later = variant == Variant::FundedByEarlierTx;
    let mut db = MemDb::default();
    db.fund(eoa(0), U256::from(10 * ETHER), 0);
    db.fund(eoa(1), U256::from(10 * ETHER), 0);
    db.fund(a(), U256::from(if funded_later { 0 } else if replayed { b0 + C } else { b0 }), 0);
    db.deploy(contract(SPENDER), kit::spender());
    db.deploy(contract(ENDOWER), kit::endower());
    db.deploy(contract(BOMB), kit::bomb());
    db.deploy(contract(44), kit::relay(a(), kit::CallKind::Call, true, false));
    db.deploy(contract(46), kit::relay(a(), kit::CallKind::Call, false, false));
    db.deploy(contract(47), kit::spender2());
    // clears slot 7 of the executing account (refund), then spends like `spender`
    db.deploy(contract(48), {
        let mut c = Asm::new().push(0).push(7).op(op::SSTORE).build();
        c.extend_from_slice(&kit::spender());
        c
    });
    if variant == Variant::WithRefund {
        db.set_storage(a(), 7, 1);
    }
    // echo: returns the received value to its caller
    db.deploy(
        contract(45),
        Asm::new().push(0).push(0).push(0).push(0).op(op::CALLVALUE).op(op::CALLER).op(op::GAS).op(op::CALL).op(op::POP).op(op::STOP).build(),
    );
    let two = matches!(variant, Variant::DustAfter | Variant::DustBefore);
    let target = match debit {
        Debit::CallValue if two => contract(47),
        Debit::CallValue if variant == Variant::WithRefund => contract(48),
        Debit::CallValue | Debit::None | Debit::OwnTopLevelValue => contract(SPENDER),
        Debit::CreateEndowment => contract(ENDOWER),
        Debit::SelfDestruct => contract(BOMB),
    };
    let auth_in_tx = variant == Variant::AuthInDebitTx;
    if !auth_in_tx {
        db.delegate(a(), target);
    }
    let mut txs: Vec<(String, revm_context::TxEnv)> = Vec::new();
    if funded_later {
        // the speculative balance read of A is stale until this transfer is visible
        // (a transfer to a delegated account runs its delegated code: give it gas)
        let mut t = transfer(eoa(1), 0, a(), b0);
        t.gas_limit = 150_000;
        txs.push(("fund(e1>A)".to_string(), t));
    }
    let amount = if debit == Debit::None { 0 } else { v };
    let data = match debit {
        Debit::CallValue if variant == Variant::DustAfter => {
            calldata(&[word_addr(sink()), word(amount as u64), word_addr(contract(45)), word(3)])
        }
        Debit::CallValue if variant == Variant::DustBefore => {
            calldata(&[word_addr(contract(45)), word(3), word_addr(sink()), word(amount as u64)])
        }
        Debit::CallValue | Debit::None => {
            let to = if variant == Variant::Refunded { contract(45) } else { sink() };
            calldata(&[word_addr(to), word(amount as u64)])
        }
        Debit::CreateEndowment => calldata(&[word(amount as u64)]),
        Debit::SelfDestruct => calldata(&[word_addr(sink())]),
        Debit::OwnTopLevelValue => Default::default(),
    };
    let mut a_nonce = 0u64;
    if replayed {
        txs.push(("pad(e1>e0)#0".to_string(), transfer(eoa(1), 0, eoa(0), 1)));
        txs.push(("pad(e1>e0)#1".to_string(), transfer(eoa(1), 1, eoa(0), 1)));
        txs.push(("stale-nonce(e1>e0)".to_string(), transfer(eoa(1), 0, eoa(0), 1)));
        txs.push(("A>e1 [earlier own tx]".to_string(), transfer(a(), a_nonce, eoa(1), LATER_VALUE)));
        a_nonce += 1;
    }
    let debit_tx = txs.len();
    match debit {
        Debit::OwnTopLevelValue => {
            // A sends value itself: no delegated execution, the rule must not apply
            txs.push(("A>sink(v) [own tx]".to_string(), transfer(a(), a_nonce, sink(), v)));
            a_nonce += 1;
        }
        _ => {
            let to = match variant {
                Variant::InnerRevert => Some(contract(44)),
                Variant::Nested => Some(contract(46)),
                Variant::ViaCreateTx => None,
                _ => Some(a()),
            };
            let data = if variant == Variant::ViaCreateTx {
                // constructor: CALL(A, calldata = (sink, amount)); empty runtime code
                let mut c = Asm::new().push_bytes(&word_addr(sink())).push(0).op(op::MSTORE).push(amount as u64).push(32).op(op::MSTORE);
                c = c.push(0).push(0).push(64).push(0).push(0).push_addr(a()).op(op::GAS).op(op::CALL).op(op::POP);
                c.push(0).push(0).op(op::RETURN).build().into()
            } else {
                data
            };
            let mut t = if self_call { tx(a(), a_nonce, Some(a()), v, data) } else { tx(eoa(0), 0, to, credit, data) };
            if self_call {
                t.gas_limit = 80_000;
                a_nonce += 1;
            }
            if auth_in_tx {
                t = with_auths(t, vec![authorization(a(), a_nonce, target)]);
                a_nonce += 1;
            }
            let via = match variant {
                Variant::InnerRevert => "relay+revert(A)",
                Variant::Nested => "relay(A)",
                Variant::ViaCreateTx => "createtx{call A}",
                _ => "A",
            };
            txs.push((format!("e0>{via}({debit:?},{variant:?})"), t));
        }
    }
    let mut later = Vec::new();
    for i in 0..k {
        later.push(txs.len());
        txs.push((format!("A>e1#{i} [own tx]"), transfer(a(), a_nonce, eoa(1), LATER_VALUE)));
        a_nonce += 1;
    }
    // ---- the rule, evaluated independently from the parameters
    let survives = variant != Variant::InnerRevert;
    let d: u128 = match debit {
        // net loss of A (a refunded debit nets to zero)
        Debit::CallValue if variant == Variant::Refunded => 0,
        Debit::CallValue | Debit::CreateEndowment => {
            if survives { v } else { 0 }
        }
        Debit::SelfDestruct => {
            if survives { b0 + credit } else { 0 }
        }
        Debit::None | Debit::OwnTopLevelValue => 0,
    };
    let credit_effective = if variant == Variant::InnerRevert { 0 } else { credit };
    let p = b0 + credit_effective;
    let violation = self_call || (d > 0 && s > 0 && p.saturating_sub(d) < p.min(s));
    // the debit itself must be possible (the delegated code's CALL fails if A cannot pay v)
    if matches!(debit, Debit::CallValue | Debit::CreateEndowment) && p < v {
        return None;
    }
    let name = format!("c13:{debit:?}:{variant:?}:{bal:?}:k{k}{}", if replayed { ":replayed" } else { "" });
    let case = Case::new(name, spec, db, txs);
    let fundable = !self_call && b0 >= s + own_tx_cost;
    Some(Block { case, debit_tx, violation, later, a_balance_if_violation: U256::from(b0.saturating_sub(C_actual(k))), fundable })
}

#[allow(non_snake_case)]
fn C_actual(k: usize) -> u128 {
    (21_000 * GAS_PRICE + LATER_VALUE) * k as u128
}

pub fn reserve_job(b: &Block, policy: bool, run0: &RunCfg, gran: Granularity, bound: usize, split: bool) -> Job {
    let mut run = run0.clone();
    run.safety = if policy { DelegatedSafetyConfig::reserve_only() } else { DelegatedSafetyConfig::disabled() };
    let mut job = pipeline_job("c13-reserve", &b.case, &run, gran, bound, split);
    let stock: Arc<OnceLock<Expected>> = Arc::new(OnceLock::new());
    let seq: Arc<OnceLock<crate::case::Observation>> = Arc::new(OnceLock::new());
    let case = b.case.clone();
    let (violation, debit_tx, later, a_bal) = (b.violation && policy, b.debit_tx, b.later.clone(), b.a_balance_if_violation);
    let fundable = b.fundable;
    // the charged revert keeps the authorisation refund only: without an authorisation list in the
    // debiting transaction nothing may be refunded
    let has_auth_list = !b.case.txs[b.debit_tx].authorization_list.is_empty();
    let seq_run = {
        let mut r = RunCfg::sequential();
        r.safety = run.safety;
        r
    };
    job.judge = Arc::new(move |res: &ExecResult| {
        let obs = res.obs.as_ref().expect("observation");
        let st = stock.get_or_init(|| reference(&case, None));
        if !violation {
            return if obs.same_as(&st.obs) {
                Judgement::Ok
            } else {
                Judgement::Violation {
                    key: "reserve-no-violation-mismatch".into(),
                    detail: format!("the rule reports no violation, so execution must equal stock revm: {}", obs.diff(&st.obs)),
                }
            };
        }
        // --- violation expected
        if obs.panic.is_some() || obs.error.is_some() || obs.outcomes.len() != case.txs.len() {
            return Judgement::Violation { key: "reserve-mismatch".into(), detail: format!("unexpected result: error {:?} panic {:?}", obs.error, obs.panic) };
        }
        let stock_gas = match &st.obs.outcomes[debit_tx] {
            TxExecutionOutcome::Executed(r) => r.gas().total_gas_spent(),
            _ => 0,
        };
        match &obs.outcomes[debit_tx] {
            TxExecutionOutcome::Executed(ExecutionResult::Revert { gas, output, .. })
                if output.is_empty() && gas.total_gas_spent() == stock_gas && (has_auth_list || gas.inner_refunded() == 0) => {}
            other => {
                return Judgement::Violation {
                    key: "reserve-not-enforced".into(),
                    detail: format!(
                        "the rule reports a violation: tx {debit_tx} must be a charged top-level Revert with empty output, {stock_gas} gas spent and no execution refund, got {other:?}"
                    ),
                }
            }
        }
        for &j in later.iter().filter(|_| fundable) {
            match &obs.outcomes[j] {
                TxExecutionOutcome::Executed(ExecutionResult::Success { .. }) => {}
                other => {
                    return Judgement::Violation {
                        key: "reserve-later-tx".into(),
                        detail: format!("later own transaction {j} of the delegated account must execute, got {other:?}"),
                    }
                }
            }
        }
        if fundable && obs.outcomes.iter().any(|o| matches!(o, TxExecutionOutcome::Skipped(InvalidTransaction::LackOfFundForMaxFee { .. }))) {
            return Judgement::Violation { key: "reserve-later-tx".into(), detail: "a transaction was skipped for lack of funds".into() };
        }
        // A keeps everything except what its own later transactions cost; the sink got nothing
        let a_acc = obs.bundle.state.get(&a());
        let a_balance = a_acc.and_then(|x| x.info.as_ref()).map(|i| i.balance);
        if fundable && !later.is_empty() && a_balance != Some(a_bal) {
            return Judgement::Violation {
                key: "reserve-state".into(),
                detail: format!("balance of the delegated account: got {a_balance:?}, expected {a_bal} (nothing but its own later transactions may debit it)"),
            };
        }
        // "keeps the nonce bump": the sender of the debiting transaction (which sends nothing else in
        // these blocks) ends with the nonce of the stock run - for a create transaction the bump
        // has to be re-applied by hand after the checkpoint revert
        {
            let caller = case.txs[debit_tx].caller;
            let nonce_of = |b: &revm_database::BundleState| b.state.get(&caller).and_then(|x| x.info.as_ref()).map(|i| i.nonce);
            let (got, want) = (nonce_of(&obs.bundle), nonce_of(&st.obs.bundle));
            if got != want {
                return Judgement::Violation {
                    key: "reserve-nonce".into(),
                    detail: format!("nonce of the debiting transaction's sender {}: got {got:?}, expected {want:?} (the charged revert keeps the nonce bump)", short(&caller)),
                };
            }
        }
        if obs.bundle.state.contains_key(&sink()) {
            return Judgement::Violation { key: "reserve-state".into(), detail: "the debit's recipient was touched although the execution was reverted".into() };
        }
        // (in the funded-by-an-earlier-transaction variant the funding transfer legitimately runs
        // the delegated code once and writes its slot)
        if !case.name.contains("FundedByEarlierTx") && a_acc.is_some_and(|x| !x.storage.is_empty()) {
            return Judgement::Violation { key: "reserve-state".into(), detail: "delegated execution left storage writes although it was reverted".into() };
        }
        // everything else (gas accounting, fee credit, authorisation effects) is pinned by the
        // forced-sequential run of the same configuration
        let sq = seq.get_or_init(|| run_grevm(&case, &seq_run).0);
        if obs.same_as(sq) {
            Judgement::Ok
        } else {
            Judgement::Violation { key: "reserve-path-dependence".into(), detail: format!("differs from the forced-sequential run: {}", obs.diff(sq)) }
        }
    });
    job
}

pub fn blocks(spec: SpecId) -> Vec<Block> {
    let mut v = Vec::new();
    for debit in [Debit::CallValue, Debit::CreateEndowment, Debit::SelfDestruct, Debit::None, Debit::OwnTopLevelValue] {
        for variant in [
            Variant::Plain,
            Variant::InnerRevert,
            Variant::CreditBefore,
            Variant::AuthInDebitTx,
            Variant::FundedByEarlierTx,
            Variant::Refunded,
            Variant::Nested,
            Variant::DustAfter,
            Variant::DustBefore,
            Variant::ViaCreateTx,
            Variant::WithRefund,
            Variant::SelfCall,
        ] {
            if matches!(variant, Variant::Refunded | Variant::DustAfter | Variant::DustBefore | Variant::ViaCreateTx | Variant::WithRefund | Variant::SelfCall) && debit != Debit::CallValue {
                continue;
            }
            if debit == Debit::OwnTopLevelValue && variant != Variant::Plain {
                continue;
            }
            if debit == Debit::SelfDestruct && variant == Variant::InnerRevert {
                continue;
            }
            if variant == Variant::Nested && matches!(debit, Debit::None) {
                continue;
            }
            // the funding transfer itself runs the delegated code (with empty calldata): only the
            // spender is harmless then
            if variant == Variant::FundedByEarlierTx && !matches!(debit, Debit::CallValue | Debit::None) {
                continue;
            }
            for bal in [Bal::Ample, Bal::Exact, Bal::ExactMinus1, Bal::BelowFutureCost] {
                for k in 0..=2 {
                    v.extend(block(debit, variant, bal, k, spec));
                    // mid-block sequential replay (commit prefix > 0) with an earlier own transaction
                    if matches!(variant, Variant::Plain | Variant::CreditBefore) && matches!(debit, Debit::CallValue | Debit::CreateEndowment | Debit::SelfDestruct) {
                        v.extend(block_ext(debit, variant, bal, k, spec, true));
                    }
                }
            }
        }
    }
    v
}

pub fn jobs(tier: Tier) -> Vec<Job> {
    let mut v = Vec::new();
    let specs: &[SpecId] = if tier == Tier::Quick { &[SpecId::PRAGUE] } else { &[SpecId::PRAGUE, SpecId::OSAKA] };
    for &spec in specs {
        for b in blocks(spec) {
            for policy in [true, false] {
                v.push(reserve_job(&b, policy, &RunCfg::sequential(), COARSE, 0, false));
                v.push(reserve_job(&b, policy, &RunCfg::parallel(1), COARSE, 1, false));
                let funded = b.case.name.contains("FundedByEarlierTx");
                match tier {
                    Tier::Quick => v.push(reserve_job(&b, policy, &RunCfg::parallel(2), COARSE, if funded { 2 } else { 1 }, false)),
                    Tier::Thorough => {
                        v.push(reserve_job(&b, policy, &RunCfg::parallel(2), COARSE, if funded { 3 } else { 2 }, false));
                        if funded {
                            v.push(reserve_job(&b, policy, &RunCfg::parallel(2), FINE, 1, false));
                        }
                    }
                }
            }
        }
    }
    v
}
