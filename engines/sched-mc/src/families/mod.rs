//! Per-property job families (DESIGN.md §4).

use crate::case::{reference, run_grevm, Case, Expected, RunCfg};
use crate::explorer::Granularity;
use crate::job::{ExecResult, Job, Judgement};
use crate::Tier;
use serde_json::json;
use std::sync::{Arc, OnceLock};

pub mod blocks;
pub mod c01;
pub mod c02;
pub mod c03;
pub mod c04;
pub mod c05;
pub mod c06;
pub mod c07;
pub mod c08;
pub mod c09;
pub mod c10;
pub mod c11;
pub mod c12;
pub mod c13;
pub mod pc;
pub mod c14;
pub mod general;
pub mod sweep;

pub const FINE: Granularity = Granularity::Fine;
pub const COARSE: Granularity = Granularity::Coarse;
/// Focus on the steps that delimit an attempt: where it starts, where it reads, where it decides
/// "fatal vs. wait", where the dependency graph re-offers it, and where work is claimed.
pub const FOCUS_ATTEMPT: Granularity = Granularity::Focus(
    "focus-attempt",
    &[
        grevm_verif_rt::pt::EXEC_BEGIN,
        grevm_verif_rt::pt::MV_READ,
        grevm_verif_rt::pt::DEP_UPDATE,
        grevm_verif_rt::pt::ERROR_HEAD_CHECK,
        grevm_verif_rt::pt::EXECUTION_CLAIMED,
        grevm_verif_rt::pt::HARNESS_DB,
    ],
);

pub const PROPS: &[&str] = &["C01", "C02", "C03", "C04", "C05", "C06", "C07", "C08", "C09", "C10", "C11", "C12", "C13", "C14"];

/// Focus on cache fills: where an attempt starts and where a value fetched from the database is
/// about to be inserted into the shared cache.
pub const FOCUS_FILL: Granularity = Granularity::Focus(
    "focus-fill",
    &[
        grevm_verif_rt::pt::EXEC_BEGIN,
        grevm_verif_rt::pt::DB_FILL_STORAGE,
        grevm_verif_rt::pt::DB_FILL_BASIC,
        grevm_verif_rt::pt::CACHE_CLEAR,
        grevm_verif_rt::pt::EXECUTION_CLAIMED,
    ],
);

/// Focus on the validation / finality protocol: where attempts start, where validation claims are
/// made (the claim-to-lock gap), where rewinds become visible and where dependencies are updated.
pub const FOCUS_VALIDATION: Granularity = Granularity::Focus(
    "focus-validation",
    &[
        grevm_verif_rt::pt::EXEC_BEGIN,
        grevm_verif_rt::pt::VALIDATION_CLAIMED,
        grevm_verif_rt::pt::DEP_UPDATE,
        grevm_verif_rt::pt::REWIND_DONE,
        grevm_verif_rt::pt::EXECUTION_CLAIMED,
    ],
);

/// Focus on the hand-over between speculation and ordered commit: where attempts start and read,
/// where a candidate is locked and published as final, where its result is taken, applied to the
/// shared cache, published as committed and where waiting work is released - plus the cache fills
/// that race with the application.
pub const FOCUS_COMMIT: Granularity = Granularity::Focus(
    "focus-commit",
    &[
        grevm_verif_rt::pt::EXEC_BEGIN,
        grevm_verif_rt::pt::MV_READ,
        grevm_verif_rt::pt::FINALITY_LOCK,
        grevm_verif_rt::pt::FINALITY_PUBLISH,
        grevm_verif_rt::pt::COMMIT_TAKE,
        grevm_verif_rt::pt::COMMIT_APPLY,
        grevm_verif_rt::pt::COMMIT_PUBLISH,
        grevm_verif_rt::pt::COMMIT_RELEASE,
        grevm_verif_rt::pt::DB_FILL_BASIC,
        grevm_verif_rt::pt::DB_FILL_STORAGE,
        grevm_verif_rt::pt::EXECUTION_CLAIMED,
    ],
);

/// Focus on the coordinators' hand-shakes: where finality is published and commit notified, where
/// commit takes and publishes, where a worker decides whether to notify finality, and aborts -
/// together with the yields, parks and blocking events, which are decision points at every
/// granularity. Lost and misplaced notifications need three to four deviations here.
pub const FOCUS_COORD: Granularity = Granularity::Focus(
    "focus-coord",
    &[
        grevm_verif_rt::pt::FINALITY_READ,
        grevm_verif_rt::pt::FINALITY_PUBLISH,
        grevm_verif_rt::pt::FINALITY_NOTIFY,
        grevm_verif_rt::pt::COMMIT_TAKE,
        grevm_verif_rt::pt::COMMIT_PUBLISH,
        grevm_verif_rt::pt::VALIDATE_NOTIFY,
        grevm_verif_rt::pt::ABORT,
    ],
);

/// The coordinators' hand-shake reduced to its three publication points (finality published,
/// commit published, validation verdict published) plus yields, parks and blocking: few enough
/// decisions for six deviations on a two-transaction block.
pub const FOCUS_COORD_MIN: Granularity = Granularity::Focus(
    "focus-coord-min",
    &[grevm_verif_rt::pt::FINALITY_PUBLISH, grevm_verif_rt::pt::COMMIT_PUBLISH, grevm_verif_rt::pt::VALIDATE_VERDICT],
);

/// The same plus the start of a finality candidate test (between the top of a finality pass and
/// the candidate's lock).
pub const FOCUS_COORD_MIN2: Granularity = Granularity::Focus(
    "focus-coord-min2",
    &[
        grevm_verif_rt::pt::FINALITY_READ,
        grevm_verif_rt::pt::FINALITY_PUBLISH,
        grevm_verif_rt::pt::COMMIT_PUBLISH,
        grevm_verif_rt::pt::VALIDATE_VERDICT,
    ],
);

/// Coordinator hand-shake points under the *sticky* cost model (explorer.rs `suspended`): one
/// deviation suspends the thread it passes over until the others block or spin, so "the commit
/// thread stays away while worker and finality pass several voluntary yields" costs one deviation
/// instead of one per yield (seeded change C17d).
pub const STICKY_COORD: Granularity = Granularity::Focus(
    "sticky-coord",
    &[
        grevm_verif_rt::pt::FINALITY_READ,
        grevm_verif_rt::pt::FINALITY_PUBLISH,
        grevm_verif_rt::pt::FINALITY_NOTIFY,
        grevm_verif_rt::pt::COMMIT_TAKE,
        grevm_verif_rt::pt::COMMIT_PUBLISH,
        grevm_verif_rt::pt::VALIDATE_VERDICT,
        grevm_verif_rt::pt::VALIDATE_NOTIFY,
    ],
);

/// The attempt-granularity points under the sticky cost model (a stale attempt that is kept away
/// while its predecessor is executed, finalised and committed costs one deviation).
pub const STICKY_ATTEMPT: Granularity = Granularity::Focus(
    "sticky-attempt",
    &[
        grevm_verif_rt::pt::EXEC_BEGIN,
        grevm_verif_rt::pt::MV_READ,
        grevm_verif_rt::pt::DEP_UPDATE,
        grevm_verif_rt::pt::ERROR_HEAD_CHECK,
        grevm_verif_rt::pt::EXECUTION_CLAIMED,
        grevm_verif_rt::pt::HARNESS_DB,
    ],
);

/// The validation / finality points under the sticky cost model.
pub const STICKY_VALIDATION: Granularity = Granularity::Focus(
    "sticky-validation",
    &[
        grevm_verif_rt::pt::EXEC_BEGIN,
        grevm_verif_rt::pt::VALIDATION_CLAIMED,
        grevm_verif_rt::pt::DEP_UPDATE,
        grevm_verif_rt::pt::REWIND_DONE,
        grevm_verif_rt::pt::EXECUTION_CLAIMED,
    ],
);

pub fn jobs(prop: &str, tier: Tier) -> Vec<Job> {
    match prop {
        "C01" => c01::jobs(tier),
        "C02" => c02::jobs(tier),
        "C03" => c03::jobs(tier),
        "C04" => c04::jobs(tier),
        "C05" => c05::jobs(tier),
        "C06" => c06::jobs(tier),
        "C07" => c07::jobs(tier),
        "C08" => c08::jobs(tier),
        "C09" => c09::jobs(tier),
        "C10" => c10::jobs(tier),
        "C11" => c11::jobs(tier),
        "C12" => c12::jobs(tier),
        "C13" => c13::jobs(tier),
        "C14" => c14::jobs(tier),
        _ => vec![],
    }
}

/// The standard pipeline job: run grevm on `case` under `run`, compare the whole observation with
/// the in-order stock-revm reference.
pub fn pipeline_job(
    family: &'static str,
    case: &Case,
    run: &RunCfg,
    gran: Granularity,
    bound: usize,
    split: bool,
) -> Job {
    let id = format!("{family}/{}/{}/{}-d{bound}", case.name, run.label(), gran.name());
    let expected: Arc<OnceLock<Expected>> = Arc::new(OnceLock::new());
    let body = {
        let case = case.clone();
        let run = run.clone();
        Arc::new(move || {
            let (obs, trace) = run_grevm(&case, &run);
            ExecResult { obs: Some(obs), trace, extra: serde_json::Value::Null }
        })
    };
    let judge = {
        let case = case.clone();
        let fault = run.fault.clone();
        let expected = expected.clone();
        Arc::new(move |res: &ExecResult| {
            let exp = expected.get_or_init(|| reference(&case, fault.clone()));
            let obs = res.obs.as_ref().expect("observation");
            if obs.same_as(&exp.obs) {
                Judgement::Ok
            } else {
                Judgement::Violation { key: "mismatch".into(), detail: obs.diff(&exp.obs) }
            }
        })
    };
    let n = case.txs.len() as u32;
    Job {
        id,
        family,
        gran,
        bound,
        split,
        step_cap: 4000 + 3000 * n * (run.workers as u32 + 2),
        body,
        judge,
        describe: json!({"case": case.describe(), "run": run.label()}),
        hang_is_violation: true,
        must_be_nontrivial: false,
        show: Some({
            let case = case.clone();
            let fault = run.fault.clone();
            Arc::new(move || {
                let exp = reference(&case, fault.clone());
                let mut s = format!("error: {:?}\n", exp.obs.error);
                for (i, o) in exp.obs.outcomes.iter().enumerate() {
                    let d = format!("{o:?}");
                    s += &format!("  tx{i} {}: {}\n", case.tx_labels[i], &d[..d.len().min(300)]);
                }
                let mut accts: Vec<_> = exp.obs.bundle.state.iter().collect();
                accts.sort_by_key(|(a, _)| **a);
                for (a, acc) in accts {
                    let st: std::collections::BTreeMap<_, _> = acc.storage.iter().map(|(k, v)| (*k, v.present_value)).collect();
                    s += &format!(
                        "  acct {} status={:?} nonce={:?} bal={:?} storage={:?}\n",
                        crate::world::short(a),
                        acc.status,
                        acc.info.as_ref().map(|i| i.nonce),
                        acc.info.as_ref().map(|i| i.balance),
                        st
                    );
                }
                s
            })
        }),
        seq: None,
    }
}

/// A sequential enumeration job.
pub fn seq_job(family: &'static str, id: String, describe: serde_json::Value, seq: crate::job::SeqFn) -> Job {
    Job {
        id,
        family,
        gran: COARSE,
        bound: 0,
        split: true,
        step_cap: 0,
        body: Arc::new(|| unreachable!()),
        judge: Arc::new(|_| Judgement::Ok),
        describe,
        hang_is_violation: false,
        must_be_nontrivial: false,
        show: None,
        seq: Some(seq),
    }
}
