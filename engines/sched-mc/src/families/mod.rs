//! Per-property job families (DESIGN.md §4).

use crate::case::{reference, run_grevm, Case, Expected, RunCfg};
use crate::explorer::Granularity;
use crate::job::{ExecResult, Job, Judgement};
use crate::Tier;
use serde_json::json;
use std::sync::{Arc, OnceLock};

pub mod blocks;
pub mod c01;

pub const FINE: Granularity = Granularity::Fine;
pub const COARSE: Granularity = Granularity::Coarse;

pub const PROPS: &[&str] = &["C01"];

pub fn jobs(prop: &str, tier: Tier) -> Vec<Job> {
    match prop {
        "C01" => c01::jobs(tier),
        _ => vec![],
    }
}

/// The standard pipeline job: run grevm on `case` under `run`, compare the whole observation with
/// the in-order stock-revm reference.
pub fn pipeline_job(
    family: &'static str,
    case: &Case,
    run: &RunCfg,
    gran: Granularity,
    bound: usize,
    split: bool,
) -> Job {
    let id = format!("{family}/{}/{}/{}-d{bound}", case.name, run.label(), gran.name());
    let expected: Arc<OnceLock<Expected>> = Arc::new(OnceLock::new());
    let body = {
        let case = case.clone();
        let run = run.clone();
        Arc::new(move || {
            let (obs, trace) = run_grevm(&case, &run);
            ExecResult { obs: Some(obs), trace, extra: serde_json::Value::Null }
        })
    };
    let judge = {
        let case = case.clone();
        let fault = run.fault.clone();
        let expected = expected.clone();
        Arc::new(move |res: &ExecResult| {
            let exp = expected.get_or_init(|| reference(&case, fault.clone()));
            let obs = res.obs.as_ref().expect("observation");
            if obs.same_as(&exp.obs) {
                Judgement::Ok
            } else {
                Judgement::Violation { key: "mismatch".into(), detail: obs.diff(&exp.obs) }
            }
        })
    };
    let n = case.txs.len() as u32;
    Job {
        id,
        family,
        gran,
        bound,
        split,
        step_cap: 4000 + 3000 * n * (run.workers as u32 + 2),
        body,
        judge,
        describe: json!({"case": case.describe(), "run": run.label()}),
        hang_is_violation: true,
        must_be_nontrivial: false,
    }
}
