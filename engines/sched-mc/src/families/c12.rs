//! C12 — the delegated-CREATE guard halts exactly delegated-context creates, nothing else.
//!
//! Programs (call shapes reaching CREATE/CREATE2) x specs x guard on/off x designator present/absent,
//! on the sequential path and on the parallel path. Expected behaviour:
//!  * guard off, or spec < Prague, or no create in the context of an account carrying a delegation
//!    designator: bit-identical to stock revm;
//!  * otherwise: identical to a stock-revm run of the same program in which the delegate target's
//!    CREATE/CREATE2 byte is an undefined opcode (the creating frame halts exceptionally, frame gas
//!    is consumed, frame state is reverted, the authority's nonce is not advanced), modulo the
//!    halt-reason value.
//! Plus the opcode sweep: each of the 256 opcode bytes after a fixed stack priming, guard on vs.
//! stock revm, on every spec.

use super::*;
use crate::world::*;
use grevm::{DelegatedSafetyConfig, TxExecutionOutcome};
use revm_context::result::{ExecutionResult, HaltReason};
use revm_primitives::{hardfork::SpecId, Address, U256};

const UNDEFINED_OPCODE: u8 = 0x0c;

fn a1() -> Address {
    eoa(8)
}
fn a2() -> Address {
    eoa(9)
}
fn a3() -> Address {
    eoa(10)
}
fn a4() -> Address {
    eoa(11)
}
fn a5() -> Address {
    eoa(12)
}
fn a6() -> Address {
    eoa(13)
}
/// libraries reached by DELEGATECALL / CALLCODE from a delegated account's code (mutilated in the
/// halting reference, like the delegate targets)
const L_CREATE2: u64 = 41;
const L_CREATE: u64 = 42;
const T_CREATE: u64 = 30;
const T_CREATE2: u64 = 31;
const F_CREATE2: u64 = 5;
const F_CREATE: u64 = 7;

/// `mutilated`: the delegate targets' creating opcode is replaced by an undefined opcode.
pub fn world(designators: bool, mutilated: bool) -> MemDb {
    let mut db = MemDb::default();
    for i in 0..2 {
        db.fund(eoa(i), U256::from(10 * ETHER), 0);
    }
    for a in [a1(), a2(), a3(), a4(), a5(), a6()] {
        db.fund(a, U256::from(10 * ETHER), 0);
    }
    let init = kit::vault_init();
    if mutilated {
        db.deploy(contract(T_CREATE), kit::factory_with_opcode(&init, false, UNDEFINED_OPCODE));
        db.deploy(contract(T_CREATE2), kit::factory_with_opcode(&init, true, UNDEFINED_OPCODE));
        db.deploy(contract(L_CREATE), kit::factory_with_opcode(&init, false, UNDEFINED_OPCODE));
        db.deploy(contract(L_CREATE2), kit::factory_with_opcode(&init, true, UNDEFINED_OPCODE));
    } else {
        db.deploy(contract(T_CREATE), kit::factory_create(&init));
        db.deploy(contract(T_CREATE2), kit::factory(&init));
        db.deploy(contract(L_CREATE), kit::factory_create(&init));
        db.deploy(contract(L_CREATE2), kit::factory(&init));
    }
    // the code account differs from the context account: a delegated account whose delegate code
    // borrows a creating library (context = the delegated account: must halt) ...
    db.deploy(contract(43), kit::relay(contract(L_CREATE2), kit::CallKind::DelegateCall, false, true));
    db.deploy(contract(44), kit::relay(contract(L_CREATE), kit::CallKind::CallCode, false, true));
    // ... and an ordinary contract that borrows the code *of a delegated account* (context = the
    // ordinary contract: must not halt)
    db.deploy(contract(45), kit::relay(a2(), kit::CallKind::DelegateCall, false, true));
    db.deploy(contract(46), kit::relay(a1(), kit::CallKind::CallCode, false, true));
    db.deploy(contract(F_CREATE2), kit::factory(&init));
    db.deploy(contract(F_CREATE), kit::factory_create(&init));
    db.deploy(contract(32), kit::relay(contract(F_CREATE2), kit::CallKind::Call, false, true));
    db.deploy(contract(33), kit::relay(contract(F_CREATE2), kit::CallKind::DelegateCall, false, true));
    db.deploy(contract(34), kit::relay(contract(F_CREATE2), kit::CallKind::StaticCall, false, true));
    db.deploy(contract(35), kit::relay(a1(), kit::CallKind::Call, false, true));
    db.deploy(contract(36), kit::relay(contract(F_CREATE2), kit::CallKind::Call, false, true));
    db.deploy(contract(37), kit::relay(contract(T_CREATE2), kit::CallKind::DelegateCall, false, true));
    db.deploy(contract(38), kit::relay(a2(), kit::CallKind::Call, true, false));
    if designators {
        db.delegate(a1(), contract(T_CREATE));
        db.delegate(a2(), contract(T_CREATE2));
        db.delegate(a3(), contract(36));
        db.delegate(a5(), contract(43));
        db.delegate(a6(), contract(44));
    }
    db
}

pub struct Program {
    pub name: &'static str,
    pub txs: Vec<(String, revm_context::TxEnv)>,
    /// contains a create in the context of an account that carries a designator (when designators
    /// are present and the spec knows EIP-7702)
    pub sensitive: bool,
    pub min_spec: SpecId,
}

pub fn programs() -> Vec<Program> {
    let salt = calldata(&[word(1)]);
    let p = |name, txs: Vec<(&str, revm_context::TxEnv)>, sensitive, min_spec| Program {
        name,
        txs: txs.into_iter().map(|(l, t)| (l.to_string(), t)).collect(),
        sensitive,
        min_spec,
    };
    vec![
        p("top-level-create-tx", vec![("create-tx(e0)", tx(eoa(0), 0, None, 1, kit::vault_init().into()))], false, SpecId::BYZANTIUM),
        p("contract-create2", vec![("e0>F.create2", tx(eoa(0), 0, Some(contract(F_CREATE2)), 1, salt.clone()))], false, SpecId::BYZANTIUM),
        p("contract-create", vec![("e0>F.create", tx(eoa(0), 0, Some(contract(F_CREATE)), 1, Default::default()))], false, SpecId::BYZANTIUM),
        p("nested-call-create2", vec![("e0>relay.call(F)", tx(eoa(0), 0, Some(contract(32)), 0, salt.clone()))], false, SpecId::BYZANTIUM),
        p("delegatecall-create2", vec![("e0>relay.delegatecall(F)", tx(eoa(0), 0, Some(contract(33)), 0, salt.clone()))], false, SpecId::BYZANTIUM),
        p("staticcall-create2", vec![("e0>relay.static(F)", tx(eoa(0), 0, Some(contract(34)), 0, salt.clone()))], false, SpecId::BYZANTIUM),
        p("delegated-eoa-create", vec![("e0>A1(->T.create)", tx(eoa(0), 0, Some(a1()), 0, Default::default()))], true, SpecId::BYZANTIUM),
        p("delegated-eoa-create2", vec![("e0>A2(->T.create2)", tx(eoa(0), 0, Some(a2()), 0, salt.clone()))], true, SpecId::BYZANTIUM),
        p("nested-delegated-eoa-create", vec![("e0>relay.call(A1)", tx(eoa(0), 0, Some(contract(35)), 0, Default::default()))], true, SpecId::BYZANTIUM),
        p("nested-delegated-create2-then-revert", vec![("e0>relay.call(A2)+revert", tx(eoa(0), 0, Some(contract(38)), 0, salt.clone()))], true, SpecId::BYZANTIUM),
        p("delegated-eoa-calls-ordinary-factory", vec![("e0>A3(->relay.call(F))", tx(eoa(0), 0, Some(a3()), 0, salt.clone()))], false, SpecId::BYZANTIUM),
        p("ordinary-delegatecalls-target-code", vec![("e0>relay.delegatecall(T.create2)", tx(eoa(0), 0, Some(contract(37)), 0, salt.clone()))], false, SpecId::BYZANTIUM),
        p("delegated-eoa-delegatecalls-creating-library", vec![("e0>A5(->relay.delegatecall(L.create2))", tx(eoa(0), 0, Some(a5()), 0, salt.clone()))], true, SpecId::BYZANTIUM),
        p("delegated-eoa-callcodes-creating-library", vec![("e0>A6(->relay.callcode(L.create))", tx(eoa(0), 0, Some(a6()), 0, Default::default()))], true, SpecId::BYZANTIUM),
        p("ordinary-delegatecalls-delegated-eoa", vec![("e0>relay.delegatecall(A2)", tx(eoa(0), 0, Some(contract(45)), 0, salt.clone()))], false, SpecId::BYZANTIUM),
        p("ordinary-callcodes-delegated-eoa", vec![("e0>relay.callcode(A1)", tx(eoa(0), 0, Some(contract(46)), 0, Default::default()))], false, SpecId::BYZANTIUM),
        p(
            "delegated-library-create-then-own-tx",
            vec![
                ("e0>A5(->relay.delegatecall(L.create2))", tx(eoa(0), 0, Some(a5()), 0, salt.clone())),
                ("A5>e1", transfer(a5(), 0, eoa(1), 5)),
            ],
            true,
            SpecId::PRAGUE,
        ),
        p(
            "delegated-create-then-own-tx",
            vec![
                ("e0>A1(->T.create)", tx(eoa(0), 0, Some(a1()), 0, Default::default())),
                ("A1>e1", transfer(a1(), 0, eoa(1), 5)),
            ],
            true,
            SpecId::PRAGUE,
        ),
        p(
            "in-block-delegation-then-create",
            vec![
                ("7702set(A4>T.create)(e1)", with_auths(call(eoa(1), 0, eoa(0), &[]), vec![authorization(a4(), 0, contract(T_CREATE))])),
                ("e0>A4", tx(eoa(0), 0, Some(a4()), 0, Default::default())),
                ("A4>e1", transfer(a4(), 1, eoa(1), 5)),
            ],
            true,
            SpecId::PRAGUE,
        ),
    ]
}

fn normalize(obs: &mut crate::case::Observation) {
    // the comparison program differs from the real one in the code of the delegate targets (their
    // create opcode is replaced), so code hashes served by the state are not comparable
    if let Some(reads) = obs.reads.as_mut() {
        for r in reads.iter_mut() {
            if let Some(info) = r.1.as_mut() {
                info.2 = revm_primitives::B256::ZERO;
            }
        }
    }
    for o in obs.outcomes.iter_mut() {
        if let TxExecutionOutcome::Executed(ExecutionResult::Halt { reason, .. }) = o {
            if matches!(reason, HaltReason::NotActivated | HaltReason::OpcodeNotFound) {
                *reason = HaltReason::OpcodeNotFound;
            }
        }
    }
}

pub fn guard_job(prog: &Program, spec: SpecId, guard: bool, designators: bool, run0: &RunCfg, bound: usize) -> Option<Job> {
    guard_job_in(prog, spec, guard, designators, run0, bound, world(designators, false), world(designators, true))
}

/// `real` is the pre-state of the run under test, `mutilated` the one of the comparison program.
#[allow(clippy::too_many_arguments)]
pub fn guard_job_in(prog: &Program, spec: SpecId, guard: bool, designators: bool, run0: &RunCfg, bound: usize, real: MemDb, mutilated: MemDb) -> Option<Job> {
    if !spec.is_enabled_in(prog.min_spec) {
        return None;
    }
    let name = if prog.name == "fixed-gas-call" {
        format!("c12:{}:{}:guard={}:designators={}", prog.txs[0].0, spec_name(spec), guard, designators)
    } else {
        format!("c12:{}:{}:guard={}:designators={}", prog.name, spec_name(spec), guard, designators)
    };
    let case = Case::new(name, spec, real, prog.txs.clone());
    let mut run = run0.clone();
    run.safety = if guard { DelegatedSafetyConfig::create_only() } else { DelegatedSafetyConfig::disabled() };
    // the last program installs its designator in the block itself
    let has_designator = designators || prog.name == "in-block-delegation-then-create";
    let halts = guard && has_designator && prog.sensitive && spec.is_enabled_in(SpecId::PRAGUE);
    let mut job = pipeline_job("c12-guard", &case, &run, COARSE, bound, false);
    let expected: Arc<OnceLock<Expected>> = Arc::new(OnceLock::new());
    let ref_case = if halts {
        // stock revm on the program whose delegate targets cannot create
        Case::new(case.name.clone(), spec, mutilated, prog.txs.clone())
    } else {
        case.clone()
    };
    job.judge = Arc::new(move |res: &ExecResult| {
        let exp = expected.get_or_init(|| {
            let mut e = reference(&ref_case, None);
            normalize(&mut e.obs);
            e
        });
        let mut obs = res.obs.clone().expect("observation");
        normalize(&mut obs);
        if obs.same_as(&exp.obs) {
            Judgement::Ok
        } else {
            Judgement::Violation {
                key: "guard-mismatch".into(),
                detail: format!(
                    "{} (expected = stock revm{}): {}",
                    if halts { "delegated-context create must halt its frame" } else { "must be identical to stock revm" },
                    if halts { " with the delegate target's create opcode undefined" } else { "" },
                    obs.diff(&exp.obs)
                ),
            }
        }
    });
    Some(job)
}

/// Stack priming of the opcode sweep: eight zeros (every operand zero), nothing (stack underflow
/// for every operand-taking opcode), eight times 0xffffffff (huge offsets and sizes: memory
/// expansion and init-code size limits fail before anything else).
#[derive(Clone, Copy, Debug, PartialEq, Eq)]
pub enum Priming {
    Zeros,
    Empty,
    Huge,
}

/// <priming> ; <opcode> ; STOP — called as an ordinary contract.
pub fn opcode_program(opcode: u8, priming: Priming) -> Vec<u8> {
    let mut code = Vec::new();
    for _ in 0..8 {
        match priming {
            Priming::Zeros => code.extend_from_slice(&[0x60, 0x00]),
            Priming::Empty => {}
            Priming::Huge => code.extend_from_slice(&[0x63, 0xff, 0xff, 0xff, 0xff]),
        }
    }
    code.push(opcode);
    code.push(0x00);
    code
}

pub fn opcode_job(opcode: u8, spec: SpecId, run0: &RunCfg) -> Job {
    opcode_job_with(opcode, spec, run0, Priming::Zeros, 200_000)
}

/// `gas_limit` 200 000 leaves ample gas for every opcode; 30 000 leaves about 9 000 after the
/// intrinsic cost, i.e. less than any rule set's CREATE cost.
pub fn opcode_job_with(opcode: u8, spec: SpecId, run0: &RunCfg, priming: Priming, gas_limit: u64) -> Job {
    let mut db = MemDb::default();
    db.fund(eoa(0), U256::from(10 * ETHER), 0);
    db.deploy(contract(40), opcode_program(opcode, priming));
    db.accounts.get_mut(&contract(40)).unwrap().info.balance = U256::from(1000u64);
    let mut t = tx(eoa(0), 0, Some(contract(40)), 3, calldata(&[word(7)]));
    t.gas_limit = gas_limit;
    let name = if priming == Priming::Zeros && gas_limit == 200_000 {
        format!("c12:opcode-{opcode:02x}:{}", spec_name(spec))
    } else {
        format!("c12:opcode-{opcode:02x}:{priming:?}:gas{gas_limit}:{}", spec_name(spec))
    };
    let case = Case::new(name, spec, db, vec![(format!("call(opcode 0x{opcode:02x})"), t)]);
    let mut run = run0.clone();
    run.safety = DelegatedSafetyConfig::create_only();
    pipeline_job("c12-opcodes", &case, &run, COARSE, 0, false)
}

pub fn jobs(tier: Tier) -> Vec<Job> {
    let mut v = Vec::new();
    let specs = [SpecId::BYZANTIUM, SpecId::PETERSBURG, SpecId::LONDON, SpecId::CANCUN, SpecId::PRAGUE, SpecId::OSAKA, SpecId::AMSTERDAM];
    let progs = programs();
    for prog in &progs {
        for spec in specs {
            for guard in [true, false] {
                for designators in [true, false] {
                    if !designators && prog.name == "delegated-create-then-own-tx" {
                        // A1 without code is an ordinary sender: still a valid program
                    }
                    let bound = if tier == Tier::Quick { 1 } else { 2 };
                    v.extend(guard_job(prog, spec, guard, designators, &RunCfg::sequential(), 0));
                    v.extend(guard_job(prog, spec, guard, designators, &RunCfg::parallel(1), bound));
                    if prog.txs.len() > 1 {
                        v.extend(guard_job(prog, spec, guard, designators, &RunCfg::parallel(2), bound));
                    }
                }
            }
        }
    }
    let sweep_specs: &[SpecId] = match tier {
        Tier::Quick => &[SpecId::PRAGUE, SpecId::OSAKA, SpecId::AMSTERDAM],
        Tier::Thorough => &[SpecId::BYZANTIUM, SpecId::PETERSBURG, SpecId::LONDON, SpecId::CANCUN, SpecId::PRAGUE, SpecId::OSAKA, SpecId::AMSTERDAM],
    };
    for &spec in sweep_specs {
        for opcode in 0..=255u8 {
            v.push(opcode_job(opcode, spec, &RunCfg::sequential()));
            v.push(opcode_job(opcode, spec, &RunCfg::parallel(1)));
            // gas and operand dimensions (seeded change C12b): the same opcode with too little gas
            // for a create, with an empty stack and with huge operands; which step fails first, and
            // with which halt reason, must be stock revm's
            for priming in [Priming::Zeros, Priming::Empty, Priming::Huge] {
                for gas in [30_000u64, 200_000, (1u64 << 24) + 300_000] {
                    if priming == Priming::Zeros && gas == 200_000 {
                        continue;
                    }
                    if gas > 1_000_000 && spec != SpecId::AMSTERDAM {
                        continue;
                    }
                    v.push(opcode_job_with(opcode, spec, &RunCfg::sequential(), priming, gas));
                }
            }
        }
    }
    // a frame that reaches CREATE2 with a fixed amount of forwarded gas, below and above the create
    // costs of the rule sets (32 000 up to Osaka, 9 000 regular gas + reservoir state gas on
    // Amsterdam), from an ordinary contract and towards a delegated account
    for &spec in sweep_specs {
        for fwd in [5_000u64, 8_000, 10_000, 20_000, 25_000, 31_000, 33_000, 60_000, 120_000, 250_000] {
            for big in [false, true] {
                if big && spec != SpecId::AMSTERDAM {
                    continue;
                }
                for (target, sensitive, tname) in [(contract(F_CREATE2), false, "F"), (a2(), true, "A2")] {
                    for guard in [true, false] {
                        for designators in [true, false] {
                            let mut t = tx(eoa(0), 0, Some(contract(47)), 0, calldata(&[word(1)]));
                            if big {
                                t.gas_limit = (1u64 << 24) + 300_000;
                            }
                            let prog = Program {
                                name: "fixed-gas-call",
                                txs: vec![(format!("e0>relay.call[gas {fwd}]({tname}.create2){}", if big { ":reservoir" } else { "" }), t)],
                                sensitive,
                                min_spec: SpecId::BYZANTIUM,
                            };
                            let wd = world_with_gas_relay(designators, false, target, fwd);
                            let wm = world_with_gas_relay(designators, true, target, fwd);
                            v.extend(guard_job_in(&prog, spec, guard, designators, &RunCfg::sequential(), 0, wd, wm));
                        }
                    }
                }
            }
        }
    }
    v
}

fn world_with_gas_relay(designators: bool, mutilated: bool, target: Address, gas: u64) -> MemDb {
    let mut db = world(designators, mutilated);
    db.deploy(contract(47), kit::relay_gas(target, gas));
    db
}
