//! C03 — invalid transactions are skipped exactly as in-order validation dictates.
//!
//! All blocks of length 1..=3 over the validity alphabet, every placement, x nonce check on/off x
//! worker count x path (parallel / below the parallel threshold / forced sequential). The oracle is
//! the in-order reference: `Skipped(e)` iff the reference skips with the *same* InvalidTransaction
//! value; bundle equality shows that a skipped transaction changes nothing; with the nonce check
//! disabled no nonce-based skip may appear (checked explicitly).

use super::sweep::*;
use super::*;
use crate::world::*;
use grevm::{InvalidTransaction, TxExecutionOutcome};
use revm_primitives::{hardfork::SpecId, U256};

pub fn world() -> MemDb {
    let mut db = MemDb::default();
    db.fund(eoa(0), U256::from(10 * ETHER), 0);
    db.fund(eoa(1), U256::from(10 * ETHER), 3);
    db.fund(eoa(2), U256::from(3 * ETHER), 0);
    db.fund(eoa(3), U256::from(10 * ETHER), 0);
    db.fund(eoa(4), U256::ZERO, 0);
    db.fund(eoa(6), U256::from(10 * ETHER), u64::MAX);
    db.fund(eoa(7), U256::from(10 * ETHER), 0);
    db.fund(eoa(8), U256::from(10 * ETHER), 0);
    db.deploy(contract(0), kit::incr());
    db.accounts.get_mut(&contract(0)).unwrap().info.balance = U256::from(10 * ETHER);
    db
}

pub fn templates() -> Vec<Template> {
    vec![
        tpl("valid(e0>e7)", eoa(0), &["e0"], |n| transfer(eoa(0), n, eoa(7), 1000)),
        tpl("nonce-low(e1)", eoa(1), &["e1"], |n| transfer(eoa(1), n, eoa(7), 1)).skew(-2),
        tpl("nonce-high(e7)", eoa(7), &["e7"], |n| transfer(eoa(7), n, eoa(0), 1)).skew(5),
        tpl("nonce-max(e6)", eoa(6), &["e6"], |n| transfer(eoa(6), n, eoa(7), 1)),
        tpl("nofunds(e5)", eoa(5), &["e5"], |n| transfer(eoa(5), n, eoa(7), 1)),
        tpl("lowgas(e0)", eoa(0), &["e0"], |n| {
            let mut t = transfer(eoa(0), n, eoa(7), 1);
            t.gas_limit = 20_000;
            t
        }),
        tpl("fee<basefee(e3)", eoa(3), &["e3"], |n| {
            let mut t = transfer(eoa(3), n, eoa(7), 1);
            t.gas_price = 1;
            t
        })
        .from_spec(SpecId::LONDON),
        tpl("sender-has-code(c0)", contract(0), &["c0"], |n| transfer(contract(0), n, eoa(7), 1)),
        // rejected before any state is read: the same value on every path and at every placement
        tpl("tip>maxfee(e3)", eoa(3), &["e3"], |n| with_1559(transfer(eoa(3), n, eoa(7), 1), 30, 50)).from_spec(SpecId::LONDON),
        tpl("gaslimit>block(e0)", eoa(0), &["e0"], |n| {
            let mut t = transfer(eoa(0), n, eoa(7), 1);
            t.gas_limit = u64::MAX / 2;
            t
        }),
        tpl("fund(e0>e4)", eoa(0), &["e0", "e4"], |n| transfer(eoa(0), n, eoa(4), 2 * ETHER)),
        tpl("dep(e4>e7)", eoa(4), &["e4"], |n| transfer(eoa(4), n, eoa(7), ETHER)),
        tpl("drain(e2>e7)", eoa(2), &["e2"], |n| transfer(eoa(2), n, eoa(7), 3 * ETHER - 21_000 * 10)),
        tpl("spend(e2>e7,1e)", eoa(2), &["e2"], |n| transfer(eoa(2), n, eoa(7), ETHER)),
        tpl("dup-nonce(e3)", eoa(3), &["e3"], |n| transfer(eoa(3), n, eoa(7), 5)).skew(-1),
        tpl("valid(e3>e7)", eoa(3), &["e3"], |n| transfer(eoa(3), n, eoa(7), 5)),
        // validity that depends on an EIP-7702 authorisation applied earlier in the block: the
        // authority's nonce is bumped by its own type-4 transaction or by somebody else's
        tpl_auth("selfauth(e8)", eoa(8), &["e8"], vec![eoa(8)], |n, nonce_of| {
            with_auths(call(eoa(8), n, eoa(7), &[]), vec![authorization(eoa(8), nonce_of(eoa(8)), contract(0))])
        }),
        tpl_auth("auth-of-e8-by(e3)", eoa(3), &["e8", "e3"], vec![eoa(8)], |n, nonce_of| {
            with_auths(call(eoa(3), n, eoa(7), &[]), vec![authorization(eoa(8), nonce_of(eoa(8)), contract(0))])
        }),
        tpl("e8-next-nonce-as-if-no-auth(e8>e7)", eoa(8), &["e8"], |n| transfer(eoa(8), n, eoa(7), 3)).stale().from_spec(SpecId::PRAGUE),
        tpl("e8-next-nonce(e8>e7)", eoa(8), &["e8"], |n| transfer(eoa(8), n, eoa(7), 3)).from_spec(SpecId::PRAGUE),
    ]
}

fn nonce_skip(o: &TxExecutionOutcome) -> bool {
    matches!(
        o,
        // NonceOverflowInTransaction is not a nonce *check*: stock revm raises it when the nonce
        // cannot be bumped, also with the check disabled, so the in-order reference decides it.
        TxExecutionOutcome::Skipped(
            InvalidTransaction::NonceTooLow { .. } | InvalidTransaction::NonceTooHigh { .. }
        )
    )
}

fn validity_job(case: &Case, run: &RunCfg, gran: Granularity, bound: usize) -> Job {
    let mut job = pipeline_job("c03-validity", case, run, gran, bound, false);
    let inner = job.judge.clone();
    let dn = case.disable_nonce_check;
    job.judge = Arc::new(move |res: &ExecResult| {
        if dn {
            if let Some(obs) = &res.obs {
                if let Some((i, o)) = obs.outcomes.iter().enumerate().find(|(_, o)| nonce_skip(o)) {
                    return Judgement::Violation {
                        key: "nonce-skip-with-check-disabled".into(),
                        detail: format!("tx {i} reported {o:?} although nonce checking is disabled"),
                    };
                }
            }
        }
        inner(res)
    });
    job
}

pub fn jobs(tier: Tier) -> Vec<Job> {
    let db = world();
    let templates = templates();
    let mut v = Vec::new();
    let (max_len, specs, bound): (usize, &[SpecId], usize) = match tier {
        Tier::Quick => (3, &[SpecId::CANCUN, SpecId::PRAGUE], 1),
        Tier::Thorough => (3, &[SpecId::BERLIN, SpecId::CANCUN, SpecId::PRAGUE], 2),
    };
    for seq in sequences(templates.len(), max_len) {
        for &spec in specs {
            // quick: the Prague rule set only for blocks that need it (authorisation templates)
            let needs_prague = seq.iter().any(|&t| templates[t].min_spec == SpecId::PRAGUE);
            if tier == Tier::Quick && (spec == SpecId::PRAGUE) != needs_prague {
                continue;
            }
            if tier == Tier::Quick && needs_prague && seq.len() == 3 && !seq.iter().all(|&t| templates[t].tags.contains(&"e8") || templates[t].label.starts_with("valid(e0")) {
                continue; // quick: length-3 authorisation blocks stay on the authority's account
            }
            let Some(case0) = build_case("c03", spec, &db, &templates, &seq) else { continue };
            for dn in [false, true] {
                let mut case = case0.clone();
                case.disable_nonce_check = dn;
                if dn {
                    case.name += ":nononce";
                }
                let n = seq.len();
                // parallel path
                for w in [1usize, 2] {
                    if n == 1 && w == 2 {
                        continue;
                    }
                    v.push(validity_job(&case, &RunCfg::parallel(w), COARSE, bound));
                }
                // below the threshold, and forced sequential: single deterministic execution each
                let mut below = RunCfg::parallel(2);
                below.min_parallel_txs = n + 1;
                v.push(validity_job(&case, &below, COARSE, 0));
                v.push(validity_job(&case, &RunCfg::sequential(), COARSE, 0));
            }
        }
    }
    // A verdict that a *stale* attempt computed must never become the block's outcome (seeded
    // change C03b: the sequential replay trusted the error recorded by an attempt that started
    // before its funding predecessor was visible and finished exactly at the commit head). The
    // window is the one of finding F2: attempt granularity, four to five deviations.
    for pair in [["fund(e0>e4)", "dep(e4>e7)"], ["valid(e3>e7)", "dup-nonce(e3)"]] {
        let seq: Vec<usize> = pair.iter().map(|l| templates.iter().position(|t| t.label == *l).unwrap()).collect();
        let case = build_case("c03", SpecId::CANCUN, &db, &templates, &seq).unwrap();
        let mut j = validity_job(&case, &RunCfg::parallel(2), FOCUS_ATTEMPT, if tier == Tier::Quick { 4 } else { 5 });
        j.split = true;
        v.push(j);
    }
    // What a rejected attempt loaded must not leak into the same worker's next attempt (seeded
    // change C03c, the worker-side twin of C04b/C11: journal finalised only on success): a funded
    // sender whose first attempt is rejected on stale state, a top-up of the same account, and a
    // transaction of that account that is skipped for lack of funds - the *fields* of the reason
    // expose which view of the balance was used.
    {
        let mut ts = templates.clone();
        ts.push(tpl("topup(e3>e4,0.2e)", eoa(3), &["e3", "e4"], |n| transfer(eoa(3), n, eoa(4), ETHER / 5)));
        ts.push(tpl("overspend(e4>e7,5e)", eoa(4), &["e4"], |n| transfer(eoa(4), n, eoa(7), 5 * ETHER)));
        let pick = |l: &str| ts.iter().position(|t| t.label == l).unwrap();
        for labels in [
            vec!["fund(e0>e4)", "dep(e4>e7)", "topup(e3>e4,0.2e)", "overspend(e4>e7,5e)"],
            vec!["fund(e0>e4)", "dep(e4>e7)", "overspend(e4>e7,5e)"],
            vec!["fund(e0>e4)", "overspend(e4>e7,5e)", "topup(e3>e4,0.2e)", "dep(e4>e7)"],
            vec!["fund(e0>e4)", "dep(e4>e7)", "dep(e4>e7)"],
        ] {
            let seq: Vec<usize> = labels.iter().map(|l| pick(l)).collect();
            for dn in [false, true] {
                let mut case = build_case("c03", SpecId::CANCUN, &db, &ts, &seq).unwrap();
                case.disable_nonce_check = dn;
                if dn {
                    case.name += ":nononce";
                }
                let mut j = validity_job(&case, &RunCfg::parallel(2), COARSE, if tier == Tier::Quick { 2 } else { 3 });
                j.split = true;
                v.push(j);
                if !dn {
                    let mut j = validity_job(&case, &RunCfg::parallel(2), FOCUS_ATTEMPT, if tier == Tier::Quick { 3 } else { 4 });
                    j.split = true;
                    v.push(j);
                }
            }
        }
    }
    {
        // three transactions: the third parks the other worker
        let labels = ["fund(e0>e4)", "dep(e4>e7)", "valid(e3>e7)"];
        let seq: Vec<usize> = labels.iter().map(|l| templates.iter().position(|t| t.label == *l).unwrap()).collect();
        let case = build_case("c03", SpecId::CANCUN, &db, &templates, &seq).unwrap();
        let mut j = validity_job(&case, &RunCfg::parallel(2), FOCUS_ATTEMPT, if tier == Tier::Quick { 3 } else { 5 });
        j.split = true;
        v.push(j);
    }
    if tier == Tier::Thorough {
        // fine granularity on the dependent-validity pairs
        for pair in [["fund(e0>e4)", "dep(e4>e7)"], ["drain(e2>e7)", "spend(e2>e7,1e)"], ["valid(e3>e7)", "dup-nonce(e3)"], ["dep(e4>e7)", "fund(e0>e4)"]] {
            let seq: Vec<usize> = pair.iter().map(|l| templates.iter().position(|t| t.label == *l).unwrap()).collect();
            let case = build_case("c03", SpecId::CANCUN, &db, &templates, &seq).unwrap();
            let mut j = validity_job(&case, &RunCfg::parallel(2), FINE, 2);
            j.split = true;
            v.push(j);
        }
    }
    v
}
