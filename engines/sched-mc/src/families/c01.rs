//! C01 — parallel execution equals in-order revm (outcomes and bundle).

use super::*;
use crate::families::blocks;
use revm_primitives::hardfork::SpecId;

pub fn jobs(tier: Tier) -> Vec<Job> {
    let mut v = Vec::new();
    let spec = SpecId::CANCUN;
    let deep = [
        blocks::nonce_chain(spec, 3),
        blocks::funding_chain(spec, 3),
        blocks::incr_same_slot(spec, 3),
        blocks::indirect_chain(spec, 3),
    ];
    for c in &deep {
        let run = RunCfg::parallel(2);
        match tier {
            Tier::Quick => {
                v.push(pipeline_job("c01-depth", c, &run, COARSE, 2, true));
                v.push(pipeline_job("c01-depth", c, &run, FINE, 1, true));
            }
            Tier::Thorough => {
                v.push(pipeline_job("c01-depth", c, &run, COARSE, 3, true));
                v.push(pipeline_job("c01-depth", c, &run, FINE, 2, true));
            }
        }
    }
    v
}
