//! C01 — parallel execution equals in-order revm (outcomes and bundle).

use super::*;
use crate::families::{blocks, general, sweep};
use revm_primitives::hardfork::SpecId;

pub fn sweep_jobs(family: &'static str, max_len: usize, specs: &[SpecId], workers: &[usize], nonce_modes: &[bool], bound: usize, filter3: bool) -> Vec<Job> {
    let db = general::std_world();
    let templates = general::templates();
    let mut v = Vec::new();
    for seq in sweep::sequences(templates.len(), max_len) {
        if seq.len() >= 2 && !sweep::shares_tag(&templates, &seq) {
            continue;
        }
        if seq.len() >= 3 && filter3 {
            // length-3 blocks: require a chain of conflicts (first-second and second-third)
            if !(sweep::shares_tag(&templates, &seq[0..2]) && sweep::shares_tag(&templates, &seq[1..3])) {
                continue;
            }
        }
        for &spec in specs {
            let Some(mut case) = sweep::build_case(family, spec, &db, &templates, &seq) else { continue };
            for &dn in nonce_modes {
                case.disable_nonce_check = dn;
                if dn {
                    case.name = format!("{}:nononce", case.name);
                }
                for &w in workers {
                    if seq.len() == 1 && w > 1 {
                        continue;
                    }
                    v.push(pipeline_job(family, &case, &RunCfg::parallel(w), COARSE, bound, false));
                }
            }
        }
    }
    v
}

pub fn deep_blocks(spec: SpecId) -> Vec<Case> {
    vec![
        blocks::nonce_chain(spec, 3),
        blocks::funding_chain(spec, 3),
        blocks::incr_same_slot(spec, 3),
        blocks::indirect_chain(spec, 3),
        blocks::late_write_chain(spec),
        blocks::early_write_chain(spec),
    ]
}

/// Wide blocks (8-9 transactions drawn from the general alphabet, several independent conflict
/// clusters, invalid transactions in the middle, dependencies at distance > 1): far beyond what
/// the deviation bound can explore deeply, so they are run at bounds 0-1 (thorough: 2) with 2-4
/// workers. They add shapes the 2-3 transaction drivers cannot have: a transaction with two
/// distinct predecessors, validation windows spanning several transactions, a commit prefix that
/// grows while far-away transactions are still being retried.
pub fn wide_blocks(spec: SpecId) -> Vec<Case> {
    let db = general::std_world();
    let ts = general::templates();
    let pick = |l: &str| ts.iter().position(|t| t.label == l).unwrap_or_else(|| panic!("no template {l}"));
    let mut blocks: Vec<(&str, Vec<&str>)> = vec![
        ("mixed", vec!["xfer(e0>e1)", "fund(e0>e4)", "xfer(e4>e1)", "incr(e1)", "incr(e2)", "ind.set7(e2)", "ind.step(e3)", "gate.go(e3)"]),
        (
            "lifecycle",
            vec!["vault.destroy(e2)", "probe(vault)(e3)", "probeslot(vault,1)(e1)", "factory.create2(e2)", "child.set(3,9)(e3)", "cbreader(e1)", "relay-revert(incr)(e3)", "incr(e1)"],
        ),
        (
            "invalid-inside",
            vec!["xfer(e0>e1)", "incr(e1)", "nofunds(e5)", "xfer(e1>e0)", "nonce+5(e0)", "xfer(e0>e1)", "gate.set1(e2)", "gate.go(e3)", "cbreader(e1)"],
        ),
        ("two-predecessors", vec!["incr(e1)", "fund(e0>e4)", "ind.set7(e2)", "xfer(e4>e1)", "incr(e2)", "ind.step(e3)", "xfer(e1>e0)", "incr(e1)"]),
    ];
    if spec.is_enabled_in(SpecId::PRAGUE) {
        blocks.push(("delegation", vec!["7702set(e3>incr)(e2)", "incr(e1)", "xfer(e1>e0)", "1559(e0>e1,tip2)", "incr(e2)", "gate.go(e3)", "xfer(e0>e1)", "cbreader(e1)"]));
    }
    blocks
        .into_iter()
        .filter_map(|(name, labels)| {
            let seq: Vec<usize> = labels.iter().map(|l| pick(l)).collect();
            let mut c = sweep::build_case("c01w", spec, &db, &ts, &seq)?;
            c.name = format!("wide-{name}:{}", crate::world::spec_name(spec));
            Some(c)
        })
        .collect()
}

pub fn jobs(tier: Tier) -> Vec<Job> {
    let mut v = Vec::new();
    let spec = SpecId::CANCUN;
    for spec in [SpecId::CANCUN, SpecId::PRAGUE] {
        for c in &wide_blocks(spec) {
            if spec == SpecId::CANCUN && tier == Tier::Quick && !c.name.contains("mixed") && !c.name.contains("lifecycle") {
                continue;
            }
            for w in [2usize, 3, 4] {
                if tier == Tier::Quick && w == 4 {
                    continue;
                }
                v.push(pipeline_job("c01-wide", c, &RunCfg::parallel(w), COARSE, 1, false));
                if tier == Tier::Thorough && w <= 3 {
                    v.push(pipeline_job("c01-wide", c, &RunCfg::parallel(w), COARSE, 2, true));
                }
                if tier == Tier::Quick && w == 2 && spec == SpecId::PRAGUE && !c.name.contains("invalid") {
                    v.push(pipeline_job("c01-wide", c, &RunCfg::parallel(w), COARSE, 2, true));
                }
            }
        }
    }
    for c in &deep_blocks(spec) {
        let run = RunCfg::parallel(2);
        match tier {
            Tier::Quick => {
                v.push(pipeline_job("c01-depth", c, &run, COARSE, 2, true));
                v.push(pipeline_job("c01-depth", c, &run, FINE, 1, true));
            }
            Tier::Thorough => {
                v.push(pipeline_job("c01-depth", c, &run, COARSE, 3, true));
                v.push(pipeline_job("c01-depth", c, &run, FINE, 2, true));
            }
        }
    }
    // blocks larger than 64 / 128 transactions (seeded change C15b packed per-transaction flags
    // into machine words): the canonical schedule of 1-8 workers, and one deviation on the smallest
    for n in [65usize, 130] {
        let c = blocks::large(spec, n);
        for w in [1usize, 2, 3, 4, 8] {
            if tier == Tier::Quick && n == 130 && w > 3 {
                continue;
            }
            v.push(pipeline_job("c01-large", &c, &RunCfg::parallel(w), COARSE, 0, false));
        }
        v.push(pipeline_job("c01-large", &c, &RunCfg::sequential(), COARSE, 0, false));
    }
    if tier == Tier::Thorough {
        v.push(pipeline_job("c01-large", &blocks::large(spec, 66), &RunCfg::parallel(2), COARSE, 1, true));
        v.push(pipeline_job("c01-large", &blocks::large(spec, 66), &RunCfg::parallel(3), COARSE, 1, true));
    }
    // the validation/finality protocol at its own granularity, two deviations deeper
    for c in &deep_blocks(spec) {
        // quick: bound 4 where re-executions move, add or drop write locations, 3 on the plain chains
        let moving = matches!(c.name.as_str(), "late-write-chain" | "early-write-chain" | "indirect-chain3");
        let b = match tier {
            Tier::Quick => if moving { 4 } else { 3 },
            Tier::Thorough => 5,
        };
        v.push(pipeline_job("c01-depth", c, &RunCfg::parallel(2), FOCUS_VALIDATION, b, true));
    }
    // the "attempt started on stale state and ends at the commit head" window (findings F2, seeded
    // C03b/C05b) at attempt granularity
    for (i, c) in [blocks::funding_chain(spec, 2), super::c04::gate_driver(spec, false).case].iter().enumerate() {
        let b = match tier {
            Tier::Quick => { let _ = i; 4 }
            Tier::Thorough => 5,
        };
        v.push(pipeline_job("c01-depth", c, &RunCfg::parallel(2), FOCUS_ATTEMPT, b, true));
    }
    // the same windows under the sticky cost model (one deviation keeps a thread away)
    for c in &deep_blocks(spec) {
        v.push(pipeline_job("c01-sticky", c, &RunCfg::parallel(2), STICKY_VALIDATION, if tier == Tier::Quick { 3 } else { 4 }, true));
    }
    for c in [blocks::funding_chain(spec, 2), super::c04::gate_driver(spec, false).case] {
        v.push(pipeline_job("c01-sticky", &c, &RunCfg::parallel(2), STICKY_ATTEMPT, if tier == Tier::Quick { 3 } else { 4 }, true));
    }
    match tier {
        Tier::Quick => {
            v.extend(sweep_jobs("c01-sweep", 2, &[SpecId::BERLIN, SpecId::CANCUN, SpecId::PRAGUE], &[1, 2], &[false, true], 1, true));
            // the oldest rule sets (no EIP-161 state clearing, contracts created with nonce 0, gas
            // price may be zero): two workers, nonce check on
            v.extend(sweep_jobs("c01-sweep", 2, &[SpecId::FRONTIER, SpecId::SPURIOUS_DRAGON], &[2], &[false], 1, true));
        }
        Tier::Thorough => {
            v.extend(sweep_jobs(
                "c01-sweep",
                3,
                &[SpecId::FRONTIER, SpecId::TANGERINE, SpecId::SPURIOUS_DRAGON, SpecId::BERLIN, SpecId::LONDON, SpecId::SHANGHAI, SpecId::CANCUN, SpecId::PRAGUE, SpecId::OSAKA],
                &[1, 2, 3],
                &[false, true],
                1,
                true,
            ));
            v.extend(sweep_jobs("c01-sweep2", 2, &[SpecId::CANCUN, SpecId::PRAGUE], &[2], &[false], 2, true));
        }
    }
    v
}
