//! C01 — parallel execution equals in-order revm (outcomes and bundle).

use super::*;
use crate::families::{blocks, general, sweep};
use revm_primitives::hardfork::SpecId;

pub fn sweep_jobs(family: &'static str, max_len: usize, specs: &[SpecId], workers: &[usize], nonce_modes: &[bool], bound: usize, filter3: bool) -> Vec<Job> {
    let db = general::std_world();
    let templates = general::templates();
    let mut v = Vec::new();
    for seq in sweep::sequences(templates.len(), max_len) {
        if seq.len() >= 2 && !sweep::shares_tag(&templates, &seq) {
            continue;
        }
        if seq.len() >= 3 && filter3 {
            // length-3 blocks: require a chain of conflicts (first-second and second-third)
            if !(sweep::shares_tag(&templates, &seq[0..2]) && sweep::shares_tag(&templates, &seq[1..3])) {
                continue;
            }
        }
        for &spec in specs {
            let Some(mut case) = sweep::build_case(family, spec, &db, &templates, &seq) else { continue };
            for &dn in nonce_modes {
                case.disable_nonce_check = dn;
                if dn {
                    case.name = format!("{}:nononce", case.name);
                }
                for &w in workers {
                    if seq.len() == 1 && w > 1 {
                        continue;
                    }
                    v.push(pipeline_job(family, &case, &RunCfg::parallel(w), COARSE, bound, false));
                }
            }
        }
    }
    v
}

pub fn deep_blocks(spec: SpecId) -> Vec<Case> {
    vec![
        blocks::nonce_chain(spec, 3),
        blocks::funding_chain(spec, 3),
        blocks::incr_same_slot(spec, 3),
        blocks::indirect_chain(spec, 3),
        blocks::late_write_chain(spec),
        blocks::early_write_chain(spec),
    ]
}

pub fn jobs(tier: Tier) -> Vec<Job> {
    let mut v = Vec::new();
    let spec = SpecId::CANCUN;
    for c in &deep_blocks(spec) {
        let run = RunCfg::parallel(2);
        match tier {
            Tier::Quick => {
                v.push(pipeline_job("c01-depth", c, &run, COARSE, 2, true));
                v.push(pipeline_job("c01-depth", c, &run, FINE, 1, true));
            }
            Tier::Thorough => {
                v.push(pipeline_job("c01-depth", c, &run, COARSE, 3, true));
                v.push(pipeline_job("c01-depth", c, &run, FINE, 2, true));
            }
        }
    }
    // the validation/finality protocol at its own granularity, two deviations deeper
    for c in &deep_blocks(spec) {
        v.push(pipeline_job("c01-depth", c, &RunCfg::parallel(2), FOCUS_VALIDATION, if tier == Tier::Quick { 4 } else { 5 }, true));
    }
    match tier {
        Tier::Quick => {
            v.extend(sweep_jobs("c01-sweep", 2, &[SpecId::BERLIN, SpecId::CANCUN, SpecId::PRAGUE], &[1, 2], &[false, true], 1, true));
        }
        Tier::Thorough => {
            v.extend(sweep_jobs(
                "c01-sweep",
                3,
                &[SpecId::BERLIN, SpecId::LONDON, SpecId::SHANGHAI, SpecId::CANCUN, SpecId::PRAGUE, SpecId::OSAKA],
                &[1, 2, 3],
                &[false, true],
                1,
                true,
            ));
            v.extend(sweep_jobs("c01-sweep2", 2, &[SpecId::CANCUN, SpecId::PRAGUE], &[2], &[false], 2, true));
        }
    }
    v
}
