//! C05 — every execution terminates: no deadlock, lost wake-up, stall or stranded thread.
//!
//! Parks have no timeout under the controlled scheduler, so "progress needed the stall timer" is a
//! detected deadlock; a worker spinning forever is a detected livelock (step cap under a fair
//! suffix). Both are reported by the explorer itself; the judge here additionally requires that a
//! returned result is the *right* result (so that "terminates by giving up" cannot pass) and that
//! an injected panic reaches the caller unchanged.

use super::*;
use crate::case::run_grevm_stats;
use crate::families::blocks;
use crate::world::*;
use revm_primitives::{hardfork::SpecId, U256};

fn with_entry(mut run: RunCfg, e: crate::case::Entry) -> RunCfg {
    run.entry = e;
    run
}

/// Liveness job with database-panic injection at the j-th database call.
pub fn panic_job(family: &'static str, case: &Case, workers: usize, j: usize, gran: Granularity, bound: usize) -> Job {
    let mut run = RunCfg::parallel(workers);
    run.fault = Some(FaultPlan { key: None, mode: FaultMode::PanicAtCall(j) });
    let mut job = pipeline_job(family, case, &run, gran, bound, false);
    let expected: Arc<OnceLock<Expected>> = Arc::new(OnceLock::new());
    {
        let case = case.clone();
        let run = run.clone();
        job.body = Arc::new(move || {
            let (obs, trace, (calls, fired)) = run_grevm_stats(&case, &run);
            ExecResult { obs: Some(obs), trace, extra: json!({"calls": calls, "fired": fired}) }
        });
    }
    let case = case.clone();
    job.judge = Arc::new(move |res: &ExecResult| {
        let obs = res.obs.as_ref().expect("observation");
        let fired = res.extra["fired"].as_bool().unwrap_or(false);
        if fired {
            return match &obs.panic {
                Some(p) if p == INJECTED_PANIC => Judgement::Ok,
                other => Judgement::Violation {
                    key: "panic-not-propagated".into(),
                    detail: format!(
                        "the database panicked inside grevm but the caller observed {:?} / error {:?} instead of the original panic",
                        other, obs.error
                    ),
                },
            };
        }
        // the j-th call was never made in this schedule: fault-free behaviour is required
        let exp = expected.get_or_init(|| reference(&case, None));
        if obs.same_as(&exp.obs) {
            Judgement::Ok
        } else {
            Judgement::Violation { key: "mismatch".into(), detail: obs.diff(&exp.obs) }
        }
    });
    job
}

pub fn fatal_at_1(spec: SpecId) -> (Case, FaultPlan) {
    let mut db = MemDb::default();
    blocks::rich(&mut db, 3);
    db.deploy(contract(0), kit::incr());
    let txs = vec![
        ("transfer(e0->e1)".to_string(), transfer(eoa(0), 0, eoa(1), 1)),
        ("incr(e1,slot1)".to_string(), call(eoa(1), 0, contract(0), &[word(1)])),
        ("transfer(e2->e0)".to_string(), transfer(eoa(2), 0, eoa(0), 1)),
    ];
    (
        Case::new("fatal-at-1", spec, db, txs),
        FaultPlan { key: Some(DbKey::Storage(contract(0), U256::from(1))), mode: FaultMode::Persistent },
    )
}

pub fn shapes(spec: SpecId) -> Vec<(Case, Option<FaultPlan>)> {
    let (fc, fp) = fatal_at_1(spec);
    let (rrm, _) = blocks::retry_reads_more(spec);
    vec![
        (rrm, None),
        (blocks::independent(spec, 3), None),
        (blocks::nonce_chain(spec, 3), None),
        (blocks::fan_in(spec), None),
        (blocks::indirect_chain(spec, 3), None),
        (blocks::funding_chain(spec, 3), None),
        (blocks::nonce_gap(spec), None),
        (fc, Some(fp)),
    ]
}

pub fn jobs(tier: Tier) -> Vec<Job> {
    let mut v = Vec::new();
    let spec = SpecId::CANCUN;
    let shapes = shapes(spec);
    let two = [blocks::nonce_chain(spec, 2), blocks::funding_chain(spec, 2)];
    for (case, fault) in &shapes {
        for w in [1usize, 2, 3] {
            let mut run = RunCfg::parallel(w);
            run.fault = fault.clone();
            match tier {
                Tier::Quick => {
                    v.push(pipeline_job("c05-live", case, &run, FINE, 1, false));
                    if w >= 2 {
                        v.push(pipeline_job("c05-live", case, &run, COARSE, 2, true));
                    }
                }
                Tier::Thorough => {
                    v.push(pipeline_job("c05-live", case, &run, FINE, 2, true));
                    if w >= 2 {
                        v.push(pipeline_job("c05-live", case, &run, COARSE, 3, true));
                    }
                }
            }
        }
        // the sequential entry point terminates as well
        let run = with_entry(RunCfg::parallel(1), crate::case::Entry::FallbackSequential);
        let mut r2 = run.clone();
        r2.fault = fault.clone();
        v.push(pipeline_job("c05-live", case, &r2, FINE, 1, false));
    }
    if tier == Tier::Quick {
        for (case, fault) in shapes.iter().take(3).chain(shapes.iter().skip(5).take(2)) {
            let mut run = RunCfg::parallel(2);
            run.fault = fault.clone();
            v.push(pipeline_job("c05-live", case, &run, FINE, 2, true));
        }
    }
    // the coordinators' notification protocol on the smallest blocks, at its own granularity
    for c in [blocks::independent(spec, 2), blocks::independent(spec, 3), blocks::nonce_chain(spec, 2), blocks::funding_chain(spec, 2), blocks::nonce_gap(spec)] {
        for w in [1usize, 2] {
            let b = match (tier, w) {
                (Tier::Quick, 1) => 4,
                (Tier::Quick, _) => if matches!(c.name.as_str(), "independent2" | "funding-chain2") { 4 } else { 3 },
                (Tier::Thorough, 1) => 5,
                (Tier::Thorough, _) => 4,
            };
            v.push(pipeline_job("c05-coord", &c, &RunCfg::parallel(w), FOCUS_COORD, b, true));
        }
    }
    for c in [blocks::nonce_chain(spec, 2), blocks::independent(spec, 2)] {
        v.push(pipeline_job("c05-coord", &c, &RunCfg::parallel(1), FOCUS_COORD_MIN, if tier == Tier::Quick { 6 } else { 8 }, true));
    }
    if tier == Tier::Thorough {
        v.push(pipeline_job("c05-coord", &blocks::nonce_chain(spec, 2), &RunCfg::parallel(1), FOCUS_COORD_MIN2, 7, true));
    }
    for c in [blocks::nonce_chain(spec, 2), blocks::independent(spec, 2), blocks::independent(spec, 3)] {
        for w in [1usize, 2] {
            let b = match (tier, w) {
                (Tier::Quick, 1) => 4,
                (Tier::Quick, _) => 3,
                (Tier::Thorough, 1) => 5,
                (Tier::Thorough, _) => 4,
            };
            v.push(pipeline_job("c05-sticky", &c, &RunCfg::parallel(w), STICKY_COORD, b, true));
        }
    }
    for c in &two {
        let run = RunCfg::parallel(2);
        v.push(pipeline_job("c05-live", c, &run, FINE, if tier == Tier::Quick { 2 } else { 3 }, true));
    }
    // An attempt that started speculatively, failed on a stale read and finishes exactly when the
    // commit boundary reaches it is neither fatal nor parked behind a predecessor: it must be
    // re-offered. (The window of finding F2; the C04 check owns the result, this one the liveness.)
    {
        let d = super::c04::gate_driver(spec, false);
        for mode in [FaultMode::Persistent, FaultMode::Once] {
            let plan = FaultPlan { key: Some(d.stale_keys[0].clone()), mode };
            let mut j = super::c04::fault_job(&d, plan, false, 2, FOCUS_ATTEMPT, if tier == Tier::Quick { 4 } else { 5 }, true);
            j.family = "c05-stale-error-at-head";
            j.id = j.id.replace("c04-fault", "c05-stale-error-at-head");
            v.push(j);
        }
    }
    // A retry that fails once (transient fault on a key only the retry reads) and then succeeds with
    // a smaller write set: the stale version of the dropped location must disappear, or its reader
    // waits for ever (seeded change C05c). Transient faults need C04's tolerant judge.
    {
        let (case, key) = blocks::retry_reads_more(spec);
        let d = super::c04::Driver { case, stale_keys: vec![] };
        let plan = FaultPlan { key: Some(key), mode: FaultMode::Once };
        for (w, gran, bound) in [(2usize, COARSE, if tier == Tier::Quick { 2 } else { 3 }), (2, FINE, 1), (3, COARSE, if tier == Tier::Quick { 1 } else { 2 })] {
            let mut j = super::c04::fault_job(&d, plan.clone(), true, w, gran, bound, true);
            j.family = "c05-live";
            j.id = j.id.replace("c04-fault", "c05-live");
            v.push(j);
        }
    }
    // a custom precompile panics inside a worker (or on the sequential path): the original panic
    // must reach the caller
    {
        use super::pc::*;
        let mut db = MemDb::default();
        blocks::rich(&mut db, 3);
        let txs = vec![
            ("transfer(e0->e1)".to_string(), transfer(eoa(0), 0, eoa(1), 1)),
            ("pc.panic(e1)".to_string(), call(eoa(1), 0, pc_addr(PC_PANIC), &[word(0)])),
            ("transfer(e2->e0)".to_string(), transfer(eoa(2), 0, eoa(0), 1)),
        ];
        let mut case = Case::new("precompile-panic", spec, db, txs);
        case.precompiles = Some(all());
        for run in [RunCfg::parallel(1), RunCfg::parallel(2), RunCfg::parallel(3), RunCfg::sequential()] {
            let (g, b) = if tier == Tier::Quick { (FINE, 1) } else { (FINE, 2) };
            let mut job = pipeline_job("c05-pc-panic", &case, &run, g, if run.force_sequential { 0 } else { b }, false);
            job.judge = Arc::new(|res: &ExecResult| {
                let obs = res.obs.as_ref().expect("observation");
                match &obs.panic {
                    Some(p) if p == PC_PANIC_MSG => Judgement::Ok,
                    other => Judgement::Violation {
                        key: "panic-not-propagated".into(),
                        detail: format!("a precompile panicked in transaction 1; the caller observed panic {other:?}, error {:?}", obs.error),
                    },
                }
            });
            v.push(job);
            if !run.force_sequential && tier == Tier::Quick {
                let mut j2 = pipeline_job("c05-pc-panic", &case, &run, COARSE, 2, false);
                j2.judge = v.last().unwrap().judge.clone();
                v.push(j2);
            }
        }
    }
    // database panic at the j-th database call, for every j the block can reach
    let pc = blocks::nonce_chain(spec, 2);
    let fc = blocks::incr_same_slot(spec, 2);
    for case in [&pc, &fc] {
        for j in 0..14 {
            for w in [1usize, 2] {
                match tier {
                    Tier::Quick => v.push(panic_job("c05-panic", case, w, j, FINE, 1)),
                    Tier::Thorough => {
                        v.push(panic_job("c05-panic", case, w, j, FINE, 2));
                        v.push(panic_job("c05-panic", case, w, j, COARSE, 3));
                    }
                }
            }
        }
    }
    v
}
