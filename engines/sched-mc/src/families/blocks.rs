//! Shared driver blocks: small, sharp, forced to collide.

use crate::case::Case;
use crate::world::*;
use revm_primitives::{hardfork::SpecId, U256};

pub fn rich(db: &mut MemDb, n: u64) {
    for i in 0..n {
        db.fund(eoa(i), U256::from(10 * ETHER), 0);
    }
}

/// Three transfers from the same sender: a pure nonce/balance chain.
pub fn nonce_chain(spec: SpecId, n: usize) -> Case {
    let mut db = MemDb::default();
    rich(&mut db, 2);
    let txs = (0..n)
        .map(|i| (format!("transfer(e0#{i}->e1,1)"), transfer(eoa(0), i as u64, eoa(1), 1)))
        .collect();
    Case::new(format!("nonce-chain{n}"), spec, db, txs)
}

/// tx i+1's sender is funded by tx i: speculative execution of tx i+1 is *invalid* (lack of funds)
/// until its predecessor is visible.
pub fn funding_chain(spec: SpecId, n: usize) -> Case {
    let mut db = MemDb::default();
    db.fund(eoa(0), U256::from(10 * ETHER), 0);
    let mut txs = Vec::new();
    let mut amount = 5 * ETHER;
    for i in 0..n {
        txs.push((
            format!("transfer(e{i}->e{},{}e)", i + 1, amount / ETHER),
            transfer(eoa(i as u64), 0, eoa(i as u64 + 1), amount),
        ));
        amount -= ETHER;
    }
    Case::new(format!("funding-chain{n}"), spec, db, txs)
}

/// n different senders increment the same slot of one contract.
pub fn incr_same_slot(spec: SpecId, n: usize) -> Case {
    let mut db = MemDb::default();
    rich(&mut db, n as u64);
    db.deploy(contract(0), kit::incr());
    let txs = (0..n)
        .map(|i| (format!("incr(e{i}, slot 1)"), call(eoa(i as u64), 0, contract(0), &[word(1)])))
        .collect();
    Case::new(format!("incr-same-slot{n}"), spec, db, txs)
}

/// tx0 sets the indirection pointer, tx1/tx2 do the indirect step: read *and* write locations depend
/// on tx0's write.
pub fn indirect_chain(spec: SpecId, n: usize) -> Case {
    let mut db = MemDb::default();
    rich(&mut db, n as u64);
    db.deploy(contract(1), kit::indirect());
    db.set_storage(contract(1), 0, 4); // k = 4 initially
    db.set_storage(contract(1), 5, 10); // slot k+1
    db.set_storage(contract(1), 8, 20); // slot 7+1
    let mut txs = vec![("indirect.set(7)".to_string(), call(eoa(0), 0, contract(1), &[word(7)]))];
    for i in 1..n {
        txs.push((format!("indirect.step(e{i})"), tx(eoa(i as u64), 0, Some(contract(1)), 0, Default::default())));
    }
    Case::new(format!("indirect-chain{n}"), spec, db, txs)
}

/// Two fee-paying transfers, then a contract that reads the coinbase balance: the reader must see
/// exactly the two preceding credits.
pub fn coinbase_reader_after_payers(spec: SpecId) -> Case {
    let mut db = MemDb::default();
    rich(&mut db, 3);
    db.deploy(contract(6), kit::coinbase_reader());
    let txs = vec![
        ("transfer(e0->e1)".to_string(), transfer(eoa(0), 0, eoa(1), 1)),
        ("transfer(e1->e0)".to_string(), transfer(eoa(1), 0, eoa(0), 2)),
        ("coinbase_reader(e2)".to_string(), tx(eoa(2), 0, Some(contract(6)), 0, Default::default())),
    ];
    Case::new("coinbase-reader-after-payers", spec, db, txs)
}

/// Fan-in: two writers of different slots, one reader of both (through incr on each).
pub fn fan_in(spec: SpecId) -> Case {
    let mut db = MemDb::default();
    rich(&mut db, 3);
    db.deploy(contract(0), kit::incr());
    db.deploy(contract(3), kit::probe());
    let txs = vec![
        ("incr(e0,slot1)".to_string(), call(eoa(0), 0, contract(0), &[word(1)])),
        ("xfer(e1->c0,5)".to_string(), tx(eoa(1), 0, Some(contract(0)), 5, calldata(&[word(2)]))),
        ("probe(c0)(e2)".to_string(), call(eoa(2), 0, contract(3), &[word_addr(contract(0))])),
    ];
    Case::new("fan-in", spec, db, txs)
}

/// Independent transfers (no conflicts at all).
pub fn independent(spec: SpecId, n: usize) -> Case {
    let mut db = MemDb::default();
    rich(&mut db, 2 * n as u64);
    let txs = (0..n)
        .map(|i| (format!("transfer(e{}->e{})", 2 * i, 2 * i + 1), transfer(eoa(2 * i as u64), 0, eoa(2 * i as u64 + 1), 1)))
        .collect();
    Case::new(format!("independent{n}"), spec, db, txs)
}

/// Second transaction has a nonce gap that the first does not fill: invalid at the commit head,
/// forcing the sequential recovery path.
pub fn nonce_gap(spec: SpecId) -> Case {
    let mut db = MemDb::default();
    rich(&mut db, 2);
    let txs = vec![
        ("transfer(e0#0)".to_string(), transfer(eoa(0), 0, eoa(1), 1)),
        ("transfer(e0#5)".to_string(), transfer(eoa(0), 5, eoa(1), 1)),
        ("transfer(e1#0)".to_string(), transfer(eoa(1), 0, eoa(0), 1)),
    ];
    Case::new("nonce-gap", spec, db, txs)
}

/// tx0: slot0 := 1; tx1: if slot0 != 0 { slot1 := 1 } (writes a *new* location only when it
/// re-executes after tx0); tx2: slot2 := slot1 + 5 (reads slot1 from storage at first). A rewind
/// caused by tx1's re-execution must also invalidate an earlier validation of tx2.
pub fn late_write_chain(spec: SpecId) -> Case {
    cond_write_chain(spec, false)
}

/// The mirror image: tx1 writes slot1 only while it still sees slot0 == 0, i.e. only its *stale*
/// incarnation writes the location that tx2 reads; the re-execution shrinks the write set.
pub fn early_write_chain(spec: SpecId) -> Case {
    cond_write_chain(spec, true)
}

fn cond_write_chain(spec: SpecId, write_when_zero: bool) -> Case {
    use crate::world::op::*;
    let code = Asm::new()
        .push(0)
        .op(CALLDATALOAD)
        .op(DUP1)
        .push(1)
        .op(EQ)
        .push_label("op1")
        .op(JUMPI)
        .op(DUP1)
        .push(2)
        .op(EQ)
        .push_label("op2")
        .op(JUMPI)
        // op0: slot0 := 1
        .push(1)
        .push(0)
        .op(SSTORE)
        .op(STOP)
        .label("op1")
        .push(0)
        .op(SLOAD);
    // skip the write when slot0 is zero (late write) resp. non-zero (early write)
    let code = if write_when_zero { code } else { code.op(ISZERO) };
    let code = code
        .push_label("done")
        .op(JUMPI)
        .push(9)
        .push(1)
        .op(SSTORE)
        .label("done")
        .op(STOP)
        .label("op2")
        .push(1)
        .op(SLOAD)
        .push(5)
        .op(ADD)
        .push(2)
        .op(SSTORE)
        .op(STOP)
        .build();
    let mut db = MemDb::default();
    rich(&mut db, 3);
    db.deploy(contract(12), code);
    let txs = (0..3)
        .map(|i| (format!("late.op{i}(e{i})"), call(eoa(i), 0, contract(12), &[word(i)])))
        .collect();
    Case::new(if write_when_zero { "early-write-chain" } else { "late-write-chain" }, spec, db, txs)
}

/// A block of `n` transactions, larger than a machine word of per-transaction flags: every
/// transaction has its own sender; transaction i pays transaction i+1's sender (a chain of balance
/// dependencies at distance 1), every third one increments a shared counter instead (dependencies
/// at distance 3), every seventh one probes the counter contract's balance/code.
pub fn large(spec: SpecId, n: usize) -> Case {
    let mut db = MemDb::default();
    for i in 0..n as u64 + 1 {
        db.fund(eoa(100 + i), U256::from(10 * ETHER), 0);
    }
    db.deploy(contract(0), kit::incr());
    db.deploy(contract(3), kit::probe());
    let mut txs = Vec::new();
    for i in 0..n as u64 {
        let from = eoa(100 + i);
        let t = if i % 7 == 6 {
            (format!("probe(c0)(u{i})"), call(from, 0, contract(3), &[word_addr(contract(0))]))
        } else if i % 3 == 2 {
            (format!("incr(u{i})"), call(from, 0, contract(0), &[word(1)]))
        } else {
            (format!("pay(u{i}>u{})", i + 1), transfer(from, 0, eoa(100 + i + 1), 1000 + i as u128))
        };
        txs.push(t);
    }
    Case::new(format!("large{n}"), spec, db, txs)
}

/// tx0: slot0 := 1; tx1: if slot0 == 0 { slot1 := 9 } else { slot3 := BALANCE(z) + 1 }; tx2: slot2 :=
/// slot1 + 5. A stale first incarnation of tx1 writes slot1; its retry reads the account `z`
/// instead (a key only the retry reads) and drops slot1 from its write set. With a fail-once fault
/// on `z` the retry *fails* first and succeeds later: the stale slot1 version must still disappear,
/// or tx2 waits for ever on an estimate of a transaction that is long final (seeded change C05c).
pub fn retry_reads_more(spec: SpecId) -> (Case, DbKey) {
    use crate::world::op::*;
    let z = eoa(5);
    let code = Asm::new()
        .push(0)
        .op(CALLDATALOAD)
        .op(DUP1)
        .push(1)
        .op(EQ)
        .push_label("op1")
        .op(JUMPI)
        .op(DUP1)
        .push(2)
        .op(EQ)
        .push_label("op2")
        .op(JUMPI)
        .push(1)
        .push(0)
        .op(SSTORE)
        .op(STOP)
        .label("op1")
        .push(0)
        .op(SLOAD)
        .push_label("fresh")
        .op(JUMPI)
        .push(9)
        .push(1)
        .op(SSTORE)
        .op(STOP)
        .label("fresh")
        .push_addr(z)
        .op(BALANCE)
        .push(1)
        .op(ADD)
        .push(3)
        .op(SSTORE)
        .op(STOP)
        .label("op2")
        .push(1)
        .op(SLOAD)
        .push(5)
        .op(ADD)
        .push(2)
        .op(SSTORE)
        .op(STOP)
        .build();
    let mut db = MemDb::default();
    rich(&mut db, 3);
    db.fund(z, U256::from(77u64), 0);
    db.deploy(contract(13), code);
    let txs = (0..3).map(|i| (format!("rrm.op{i}(e{i})"), call(eoa(i), 0, contract(13), &[word(i)]))).collect();
    (Case::new("retry-reads-more", spec, db, txs), DbKey::Basic(z))
}
