//! C04 — errors are faithful and leave an exact committed prefix (fault enumeration).
//!
//! For every driver block: every database key the in-order reference reads, plus the keys that only
//! a *stale* speculative attempt reads, x {persistent error, fail-once}, x worker count, each under
//! all schedules within the bound.
//!
//! Oracle. Persistent fault: the whole observation (Ok/Err, error value and index, outcomes,
//! bundle) equals the in-order reference run on the same faulty database. Fail-once on a key that
//! in-order execution reads: either the full fault-free result, or `Err` at some index k carrying
//! that database error with exactly the first k in-order outcomes and exactly their state. A fault
//! on a key that in-order execution never reads must never be reported (finding F2 when it is).

use super::*;
use crate::families::{blocks, general};
use crate::world::*;
use revm_primitives::{hardfork::SpecId, U256};
use std::collections::BTreeSet;

pub struct Driver {
    pub case: Case,
    /// keys read only by attempts that run on stale state
    pub stale_keys: Vec<DbKey>,
}

pub fn blockhash_reader() -> Vec<u8> {
    use crate::world::op::*;
    // SSTORE(0, BLOCKHASH(NUMBER - 1))
    Asm::new().push(1).op(0x43).op(SUB).op(BLOCKHASH).push(0).op(SSTORE).op(STOP).build()
}

pub fn gate_driver(spec: SpecId, with_prefix_tx: bool) -> Driver {
    let mut db = MemDb::default();
    blocks::rich(&mut db, 4);
    db.deploy(contract(2), general::gate_settable(eoa(5)));
    db.set_storage(contract(2), 9, 3);
    let mut txs = Vec::new();
    if with_prefix_tx {
        txs.push(("transfer(e0->e1)".to_string(), transfer(eoa(0), 0, eoa(1), 1)));
    }
    txs.push(("gate.set1(e2)".to_string(), call(eoa(2), 0, contract(2), &[word(1)])));
    txs.push(("gate.go(e3)".to_string(), tx(eoa(3), 0, Some(contract(2)), 0, Default::default())));
    Driver {
        case: Case::new(if with_prefix_tx { "gate3" } else { "gate2" }, spec, db, txs),
        stale_keys: vec![DbKey::Basic(eoa(5)), DbKey::Storage(contract(2), U256::from(9))],
    }
}

pub fn drivers(spec: SpecId) -> Vec<Driver> {
    let mut v = vec![
        Driver { case: blocks::nonce_chain(spec, 3), stale_keys: vec![] },
        Driver { case: blocks::incr_same_slot(spec, 2), stale_keys: vec![] },
        gate_driver(spec, false),
        gate_driver(spec, true),
        Driver {
            case: blocks::indirect_chain(spec, 2),
            stale_keys: vec![DbKey::Storage(contract(1), U256::from(5)), DbKey::Storage(contract(1), U256::from(4))],
        },
        Driver { case: blocks::fan_in(spec), stale_keys: vec![] },
        Driver { case: blocks::funding_chain(spec, 2), stale_keys: vec![] },
    ];
    // the fee recipient is a contract with code and storage that nobody calls: its record is loaded
    // up front, its code and slots are not
    {
        let mut c = blocks::incr_same_slot(spec, 2);
        let mut db = (*c.db).clone();
        db.deploy(contract(30), kit::vault());
        db.set_storage(contract(30), 0, 5);
        c.db = std::sync::Arc::new(db);
        c.env.beneficiary = contract(30);
        c.name = "coinbase-is-contract".into();
        v.push(Driver { case: c, stale_keys: vec![] });
    }
    // the retry reads a key the stale first incarnation does not, and drops a write location
    {
        let (c, _) = blocks::retry_reads_more(spec);
        v.push(Driver { case: c, stale_keys: vec![] });
    }
    // block-hash reads
    let mut db = MemDb::default();
    blocks::rich(&mut db, 2);
    db.deploy(contract(7), blockhash_reader());
    let txs = vec![
        ("transfer(e0->e1)".to_string(), transfer(eoa(0), 0, eoa(1), 1)),
        ("blockhash_reader(e1)".to_string(), tx(eoa(1), 0, Some(contract(7)), 0, Default::default())),
    ];
    v.push(Driver { case: Case::new("blockhash", spec, db, txs), stale_keys: vec![] });
    // mid-block sequential replay: two valid transfers, a nonce-too-low transaction (the ordered
    // commit refuses it, the suffix is replayed sequentially from a committed prefix of 2), then a
    // storage-reading call. A fault on a key of the last transaction must be reported with the
    // *block* index 3 and the exact prefix.
    {
        let mut db = MemDb::default();
        blocks::rich(&mut db, 3);
        db.deploy(contract(9), kit::store());
        db.set_storage(contract(9), 1, 11);
        let txs = vec![
            ("transfer(e0->e1)#0".to_string(), transfer(eoa(0), 0, eoa(1), 1)),
            ("transfer(e0->e1)#1".to_string(), transfer(eoa(0), 1, eoa(1), 1)),
            ("stale-nonce(e0->e1)".to_string(), transfer(eoa(0), 0, eoa(1), 1)),
            ("store(S,1,5)(e2)".to_string(), call(eoa(2), 0, contract(9), &[word(1), word(5)])),
        ];
        v.push(Driver { case: Case::new("replayed-suffix", spec, db, txs), stale_keys: vec![] });
    }
    // a custom precompile that ignores a database fault returned by the facade: the fault must
    // still take effect
    {
        use super::pc::*;
        let mut db = MemDb::default();
        blocks::rich(&mut db, 2);
        db.deploy(contract(9), kit::store());
        db.set_storage(contract(9), 1, 11);
        let txs = vec![
            ("transfer(e0->e1)".to_string(), transfer(eoa(0), 0, eoa(1), 1)),
            ("pc.fault-ignore(S,1)(e1)".to_string(), call(eoa(1), 0, pc_addr(PC_FAULT_IGNORE), &[word_addr(contract(9)), word(1)])),
        ];
        let mut case = Case::new("pc-fault-ignore", spec, db.clone(), txs);
        case.precompiles = Some(all());
        v.push(Driver { case, stale_keys: vec![] });
        // ... and one that answers a failed read with its own *halt*: the database fault is fatal all the same
        let txs = vec![
            ("transfer(e0->e1)".to_string(), transfer(eoa(0), 0, eoa(1), 1)),
            ("pc.read-halt(S,1)(e1)".to_string(), call(eoa(1), 0, pc_addr(PC_READ_ERR_TO_HALT), &[word_addr(contract(9)), word(1)])),
        ];
        let mut case = Case::new("pc-read-err-to-halt", spec, db, txs);
        case.precompiles = Some(all());
        v.push(Driver { case, stale_keys: vec![] });
    }
    v
}

/// State-dependent fatal precompile error (no database fault involved): tx1 calls a precompile that
/// fails fatally iff S.slot1 is zero. `armed`: tx0 makes the slot non-zero, so only a *stale*
/// attempt of tx1 sees the fatal error; otherwise in-order execution fails at tx1.
pub fn fatal_precompile_case(spec: SpecId, armed: bool) -> Case {
    use super::pc::*;
    let mut db = MemDb::default();
    blocks::rich(&mut db, 3);
    db.deploy(contract(9), kit::store());
    let txs = vec![
        (
            if armed { "store(S,1,5)(e0)" } else { "store(S,2,5)(e0)" }.to_string(),
            call(eoa(0), 0, contract(9), &[word(if armed { 1 } else { 2 }), word(5)]),
        ),
        ("pc.fatal-if-zero(S,1)(e1)".to_string(), call(eoa(1), 0, pc_addr(PC_FATAL_IF_ZERO), &[word_addr(contract(9)), word(1)])),
        ("transfer(e2->e0)".to_string(), transfer(eoa(2), 0, eoa(0), 1)),
    ];
    let mut case = Case::new(if armed { "pc-fatal-stale-only" } else { "pc-fatal-in-order" }, spec, db, txs);
    case.precompiles = Some(all());
    case
}

fn db_err_string(key: &DbKey) -> String {
    crate::case::err_string(&revm_context::result::EVMError::Database(DbErr(key.label())))
}

pub fn fault_job(d: &Driver, fault: FaultPlan, in_order_key: bool, workers: usize, gran: Granularity, bound: usize, split: bool) -> Job {
    let mut run = RunCfg::parallel(workers);
    run.fault = Some(fault.clone());
    let mut job = pipeline_job("c04-fault", &d.case, &run, gran, bound, split);
    let case = d.case.clone();
    let faulty: Arc<OnceLock<Expected>> = Arc::new(OnceLock::new());
    let free: Arc<OnceLock<Expected>> = Arc::new(OnceLock::new());
    let prefixes: Arc<OnceLock<Vec<Expected>>> = Arc::new(OnceLock::new());
    job.judge = Arc::new(move |res: &ExecResult| {
        let obs = res.obs.as_ref().expect("observation");
        let key = fault.key.as_ref().expect("fault key");
        if !in_order_key {
            // in-order execution never reads this key: the fault must be invisible
            let exp = free.get_or_init(|| reference(&case, None));
            if obs.same_as(&exp.obs) {
                return Judgement::Ok;
            }
            let stale_fatal = obs.panic.is_none() &&
                obs.error.as_ref().is_some_and(|(_, e)| *e == db_err_string(key));
            return Judgement::Violation {
                key: if stale_fatal { "stale-fatal-at-head".into() } else { "mismatch".into() },
                detail: format!(
                    "fault on {} which in-order execution never reads ({:?}): {}",
                    key.label(),
                    fault.mode,
                    obs.diff(&exp.obs)
                ),
            };
        }
        match fault.mode {
            FaultMode::Persistent => {
                let exp = faulty.get_or_init(|| reference(&case, Some(fault.clone())));
                if obs.same_as(&exp.obs) {
                    Judgement::Ok
                } else {
                    Judgement::Violation { key: "mismatch".into(), detail: obs.diff(&exp.obs) }
                }
            }
            FaultMode::Once => {
                let exp = free.get_or_init(|| reference(&case, None));
                if obs.same_as(&exp.obs) {
                    return Judgement::Ok; // absorbed
                }
                if obs.panic.is_some() {
                    return Judgement::Violation { key: "mismatch".into(), detail: obs.diff(&exp.obs) };
                }
                let Some((k, e)) = &obs.error else {
                    return Judgement::Violation { key: "mismatch".into(), detail: obs.diff(&exp.obs) };
                };
                // the error must be the injected database error, either as `Database(..)` or in the
                // form in-order execution reports it when it meets the same transient fault (a
                // precompile stringifies a facade fault into a fatal `Custom` error)
                let in_order_form = faulty.get_or_init(|| reference(&case, Some(fault.clone()))).obs.error.as_ref().map(|(_, e)| e.clone());
                if *e != db_err_string(key) && Some(e) != in_order_form.as_ref() {
                    return Judgement::Violation {
                        key: "wrong-error".into(),
                        detail: format!("transient fault on {}: reported error {e} at {k}", key.label()),
                    };
                }
                let pref = prefixes.get_or_init(|| {
                    (0..=case.txs.len())
                        .map(|k| {
                            let mut c = case.clone();
                            c.txs = Arc::new(case.txs[..k].to_vec());
                            reference(&c, None)
                        })
                        .collect()
                });
                let Some(p) = pref.get(*k) else {
                    return Judgement::Violation { key: "bad-index".into(), detail: format!("error index {k} out of range") };
                };
                if obs.outcomes == p.obs.outcomes && obs.bundle == p.obs.bundle {
                    Judgement::Ok
                } else {
                    let mut o2 = obs.clone();
                    o2.error = None;
                    Judgement::Violation {
                        key: "inexact-prefix".into(),
                        detail: format!("error at {k} but state/outcomes are not the exact in-order prefix: {}", o2.diff(&p.obs)),
                    }
                }
            }
            FaultMode::PanicAtCall(_) => unreachable!(),
        }
    });
    job
}

pub fn jobs(tier: Tier) -> Vec<Job> {
    let mut v = Vec::new();
    let spec = SpecId::CANCUN;
    // state-dependent fatal precompile errors: the observation must equal the reference in every
    // schedule (an error only if in-order execution fails, then with the exact prefix)
    for armed in [true, false] {
        let case = fatal_precompile_case(spec, armed);
        for w in [1usize, 2] {
            v.push(pipeline_job("c04-pc-fatal", &case, &RunCfg::parallel(w), COARSE, if tier == Tier::Quick { 2 } else { 3 }, true));
        }
        // the stale-only fatal error is the F2 window (four deviations); the in-order one needs less
        let b = match (tier, armed) {
            (Tier::Quick, true) => 4,
            (Tier::Quick, false) => 3,
            (Tier::Thorough, _) => 5,
        };
        v.push(pipeline_job("c04-pc-fatal", &case, &RunCfg::parallel(2), FOCUS_ATTEMPT, b, true));
        v.push(pipeline_job("c04-pc-fatal", &case, &RunCfg::sequential(), COARSE, 0, false));
    }
    for d in drivers(spec) {
        let free = reference(&d.case, None);
        let in_order: BTreeSet<DbKey> = free.keys_read.iter().cloned().collect();
        let mut keys: Vec<(DbKey, bool)> = in_order.iter().cloned().map(|k| (k, true)).collect();
        for k in &d.stale_keys {
            if !in_order.contains(k) {
                keys.push((k.clone(), false));
            }
        }
        // ... and every other key of the pre-state (account records, storage slots, code bodies,
        // the beneficiary's included): "for every database key". Nothing in-order execution does
        // reads them, so a fault on them must stay invisible (seeded change C04c preloaded the fee
        // recipient's bytecode up front). One worker count, persistent faults.
        let mut unread: Vec<DbKey> = Vec::new();
        for (a, acc) in &d.case.db.accounts {
            unread.push(DbKey::Basic(*a));
            for slot in acc.storage.keys() {
                unread.push(DbKey::Storage(*a, *slot));
            }
        }
        for h in d.case.db.codes.keys() {
            unread.push(DbKey::Code(*h));
        }
        unread.retain(|k| !in_order.contains(k) && !d.stale_keys.contains(k));
        for key in unread {
            let plan = FaultPlan { key: Some(key), mode: FaultMode::Persistent };
            v.push(fault_job(&d, plan, false, 2, COARSE, 1, false));
        }
        let stale_driver = !d.stale_keys.is_empty();
        for (key, in_order_key) in keys {
            for mode in [FaultMode::Persistent, FaultMode::Once] {
                for w in [1usize, 2] {
                    let plan = FaultPlan { key: Some(key.clone()), mode };
                    match tier {
                        Tier::Quick => {
                            let b = if stale_driver && w == 2 { 2 } else { 1 };
                            v.push(fault_job(&d, plan, in_order_key, w, COARSE, b, false));
                        }
                        Tier::Thorough => {
                            let b = if stale_driver && w == 2 { 3 } else { 2 };
                            v.push(fault_job(&d, plan.clone(), in_order_key, w, COARSE, b, false));
                            v.push(fault_job(&d, plan, in_order_key, w, FINE, 1, false));
                        }
                    }
                }
            }
        }
        // no fault at all
        v.push(pipeline_job("c04-fault", &d.case, &RunCfg::parallel(2), COARSE, 1, false));
        // the stale-attempt-at-head window (finding F2) needs four deviations at protocol
        // granularity; at attempt granularity the bound is reachable in the quick tier
        if stale_driver {
            for k in &d.stale_keys {
                if in_order.contains(k) {
                    continue;
                }
                for mode in [FaultMode::Persistent, FaultMode::Once] {
                    let plan = FaultPlan { key: Some(k.clone()), mode };
                    let sharpest = d.case.name == "gate2" && mode == FaultMode::Persistent && *k == d.stale_keys[0];
                    let b = match (tier, sharpest) {
                        (Tier::Quick, true) => 4,
                        (Tier::Quick, false) => 3,
                        (Tier::Thorough, true) => 5,
                        (Tier::Thorough, false) => 4,
                    };
                    v.push(fault_job(&d, plan.clone(), false, 2, FOCUS_ATTEMPT, b, true));
                    // the same window under the sticky cost model
                    v.push(fault_job(&d, plan, false, 2, STICKY_ATTEMPT, if tier == Tier::Quick { 3 } else { 4 }, true));
                }
            }
        }
    }
    v
}
