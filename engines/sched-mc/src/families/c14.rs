//! C14 — a scheduler executes its block at most once.
//!
//! Two or three tasks call entry points of *one* shared Scheduler concurrently (every schedule
//! within the bound, which includes all successive orders). Exactly one call runs the block; every
//! other call returns the "can execute only once" error; outcomes and bundle afterwards are those
//! of one in-order application of the block.

use super::*;
use crate::case::{finish, Entry};
use crate::families::blocks;
use crate::world::*;
use grevm::{ParallelState, Scheduler};
use revm_primitives::hardfork::SpecId;

const ONCE_MSG: &str = "a Scheduler can execute only once";

pub fn race_job(case: &Case, run: &RunCfg, entries: Vec<Entry>, gran: Granularity, bound: usize) -> Job {
    race_job_with(case, run, entries, gran, bound, None)
}

/// With a database fault: the elected call may *fail* (seeded change C14d released the claim when
/// the up-front read of the fee recipient failed) - it has still run, every other call is refused,
/// and outcomes and state are those of the one failed run.
pub fn race_job_with(case: &Case, run: &RunCfg, entries: Vec<Entry>, gran: Granularity, bound: usize, fault: Option<FaultPlan>) -> Job {
    let flabel = fault.as_ref().map_or(String::new(), |f| format!(",fault[{}:{:?}]", f.key.as_ref().map_or("-".into(), |k| k.label()), f.mode));
    let id = format!("c14-once/{}/{}{flabel}/{:?}/{}-d{bound}", case.name, run.label(), entries, gran.name());
    let body = {
        let case = case.clone();
        let run = run.clone();
        let entries = entries.clone();
        let fault = fault.clone();
        Arc::new(move || {
            use grevm_verif_rt as rt;
            let db = Arc::new(ExecDb::new(case.db.clone(), fault.clone(), false, false));
            crate::case::install_observer(false);
            let state = ParallelState::new(db, true, false);
            let scheduler = Scheduler::new_with_runtime_config(
                case.cfg(),
                case.env.clone(),
                case.txs.clone(),
                state,
                case.precompiles.clone(),
                run.grevm_config(),
            );
            let results: Vec<Result<Result<(), String>, String>> = rt::thread::scope(|s| {
                let hs: Vec<_> = entries
                    .iter()
                    .map(|e| {
                        let e = *e;
                        let scheduler = &scheduler;
                        s.spawn(move || {
                            rt::point(rt::pt::HARNESS_ENTRY);
                            let r = match e {
                                Entry::Execute => scheduler.execute(),
                                Entry::ParallelExecute(k) => scheduler.parallel_execute(Some(k)),
                                Entry::FallbackSequential => scheduler.fallback_sequential(),
                            };
                            r.map_err(|e| format!("{:?}", e.error))
                        })
                    })
                    .collect();
                hs.into_iter().map(|h| h.join().map_err(|p| crate::explorer::payload_to_string(&p))).collect()
            });
            let mut trace = crate::case::take_trace();
            // which caller won is part of what distinguishes executions; a run is non-trivial when
            // the winner is not the first caller (the race was actually decided by the schedule)
            let winner = results.iter().position(|r| matches!(r, Ok(Ok(())))).unwrap_or(usize::MAX);
            trace.digest ^= (winner as u64 + 1).wrapping_mul(0x9e3779b97f4a7c15);
            if winner != 0 {
                trace.conflicts += 1;
            }
            let obs = finish(scheduler, Ok(Ok(())));
            ExecResult { obs: Some(obs), trace, extra: json!(results.iter().map(|r| format!("{r:?}")).collect::<Vec<_>>()) }
        })
    };
    let expected: Arc<OnceLock<Expected>> = Arc::new(OnceLock::new());
    let judge = {
        let case = case.clone();
        let fault = fault.clone();
        Arc::new(move |res: &ExecResult| {
            let rs: Vec<String> = res.extra.as_array().unwrap().iter().map(|v| v.as_str().unwrap().to_string()).collect();
            let rejected = rs.iter().filter(|r| r.contains(ONCE_MSG)).count();
            if let Some(f) = &fault {
                // exactly one call ran (successfully or not); all others were refused
                let ran = rs.iter().filter(|r| !r.contains(ONCE_MSG) && r.starts_with("Ok(")).count();
                if ran != 1 || rejected != rs.len() - 1 {
                    return Judgement::Violation {
                        key: "not-exactly-one-run".into(),
                        detail: format!("entry-point results under {f:?}: {rs:?} (expected exactly one call that ran - Ok or a database error - and the once-only error for every other call)"),
                    };
                }
                let obs = res.obs.as_ref().unwrap();
                let failed = rs.iter().any(|r| r.starts_with("Ok(Err(") && !r.contains(ONCE_MSG));
                // a failed run leaves the exact prefix of the in-order run on the same faulty
                // database; a run that absorbed a transient fault leaves the fault-free result
                let exp = if failed { reference(&case, Some(FaultPlan { key: f.key.clone(), mode: FaultMode::Persistent })) } else { reference(&case, None) };
                return if obs.outcomes == exp.obs.outcomes && obs.bundle == exp.obs.bundle {
                    Judgement::Ok
                } else {
                    Judgement::Violation { key: "applied-not-once".into(), detail: obs.diff(&exp.obs) }
                };
            }
            let exp = expected.get_or_init(|| reference(&case, None));
            let winners = rs.iter().filter(|r| *r == "Ok(Ok(()))").count();
            if winners != 1 || rejected != rs.len() - 1 {
                return Judgement::Violation {
                    key: "not-exactly-one-winner".into(),
                    detail: format!("entry-point results: {rs:?} (expected exactly one Ok and the once-only error for every other call)"),
                };
            }
            let obs = res.obs.as_ref().unwrap();
            if obs.same_as(&exp.obs) {
                Judgement::Ok
            } else {
                Judgement::Violation { key: "applied-not-once".into(), detail: obs.diff(&exp.obs) }
            }
        })
    };
    Job {
        id,
        family: "c14-once",
        gran,
        bound,
        split: true,
        step_cap: 60_000,
        body,
        judge,
        describe: json!({"case": case.describe(), "run": run.label(), "entries": format!("{entries:?}")}),
        hang_is_violation: true,
        must_be_nontrivial: false,
        show: None,
        seq: None,
    }
}

fn untouched_job() -> Job {
    let seq: crate::job::SeqFn = Arc::new(move |_part, _deadline, _only| {
        let mut rep = crate::job::SeqReport::default();
        for (k, case) in [blocks::nonce_chain(SpecId::CANCUN, 2), blocks::independent(SpecId::CANCUN, 0)].iter().enumerate() {
            let db = Arc::new(ExecDb::new(case.db.clone(), None, false, false));
            let state = ParallelState::new(db, true, false);
            let scheduler = Scheduler::new_with_runtime_config(case.cfg(), case.env.clone(), case.txs.clone(), state, None, RunCfg::parallel(2).grevm_config());
            let obs = finish(scheduler, Ok(Ok(())));
            rep.evaluations += 1;
            rep.states += 1;
            rep.transitions += 1;
            // "untouched" = what revm's State yields when nothing was executed (an empty revert block)
            let mut none = case.clone();
            none.txs = Arc::new(vec![]);
            let untouched = reference(&none, None).obs.bundle;
            if !obs.outcomes.is_empty() || obs.bundle != untouched {
                rep.violations.push(("touched-before-execution".into(), format!("take_result_and_state before any execution returned {:?}", obs), json!({"case": k})));
            }
        }
        rep.completed = true;
        rep
    });
    seq_job("c14-untouched", "c14-untouched/take-before-execute".into(), json!({"check": "take_result_and_state before any execution"}), seq)
}

pub fn jobs(tier: Tier) -> Vec<Job> {
    let spec = SpecId::CANCUN;
    let mut v = vec![untouched_job()];
    let block = blocks::nonce_chain(spec, 2);
    let empty = blocks::independent(spec, 0);
    let par = RunCfg::parallel(1);
    let seqc = RunCfg::sequential();
    let pairs: Vec<Vec<Entry>> = vec![
        vec![Entry::Execute, Entry::Execute],
        vec![Entry::Execute, Entry::FallbackSequential],
        vec![Entry::ParallelExecute(1), Entry::FallbackSequential],
        vec![Entry::FallbackSequential, Entry::FallbackSequential],
    ];
    for es in &pairs {
        for (case, run) in [(&block, &par), (&block, &seqc), (&empty, &par)] {
            match tier {
                Tier::Quick => {
                    v.push(race_job(case, run, es.clone(), FINE, 2));
                    v.push(race_job(case, run, es.clone(), COARSE, 3));
                }
                Tier::Thorough => {
                    v.push(race_job(case, run, es.clone(), FINE, 3));
                    v.push(race_job(case, run, es.clone(), COARSE, 4));
                }
            }
        }
    }
    // the elected call fails: up-front read of the fee recipient (persistent and fail-once), or the
    // first sender's record; callers one after the other and racing
    for key in [DbKey::Basic(block.env.beneficiary), DbKey::Basic(eoa(0))] {
        for mode in [FaultMode::Once, FaultMode::Persistent] {
            for es in [vec![Entry::Execute, Entry::Execute], vec![Entry::Execute, Entry::FallbackSequential, Entry::ParallelExecute(1)], vec![Entry::FallbackSequential, Entry::Execute]] {
                let plan = FaultPlan { key: Some(key.clone()), mode };
                v.push(race_job_with(&block, &par, es.clone(), COARSE, if tier == Tier::Quick { 2 } else { 3 }, Some(plan.clone())));
                v.push(race_job_with(&block, &par, es, FINE, if tier == Tier::Quick { 1 } else { 2 }, Some(plan)));
            }
        }
    }
    let triple = vec![Entry::Execute, Entry::FallbackSequential, Entry::ParallelExecute(1)];
    for (case, run) in [(&block, &par), (&empty, &par)] {
        v.push(race_job(case, run, triple.clone(), FINE, if tier == Tier::Quick { 2 } else { 3 }));
        v.push(race_job(case, run, triple.clone(), COARSE, if tier == Tier::Quick { 2 } else { 4 }));
    }
    v
}
