//! C11 — custom precompiles via the state facade match in-order execution, no residue.

use super::pc::*;
use super::sweep::*;
use super::*;
use crate::world::*;
use revm_primitives::{hardfork::SpecId, U256};

const S: u64 = 9; // a `store` contract whose slots the precompiles read and write

pub fn world() -> MemDb {
    let mut db = MemDb::default();
    for i in 0..4 {
        db.fund(eoa(i), U256::from(10 * ETHER), 0);
    }
    db.deploy(contract(S), kit::store());
    db.set_storage(contract(S), 1, 11);
    db.accounts.get_mut(&contract(S)).unwrap().info.balance = U256::from(500u64);
    db.deploy(contract(3), kit::probe());
    db.deploy(contract(20), kit::relay(pc_addr(PC_WRITE), kit::CallKind::Call, false, true));
    db.deploy(contract(21), kit::relay(pc_addr(PC_WRITE), kit::CallKind::StaticCall, false, true));
    db.deploy(contract(22), kit::relay(pc_addr(PC_WRITE), kit::CallKind::Call, true, false));
    db.deploy(contract(23), kit::relay(pc_addr(PC_STATIC_IGNORE), kit::CallKind::StaticCall, false, true));
    db.deploy(contract(24), kit::relay(pc_addr(PC_READ_WRITE_READ), kit::CallKind::Call, false, true));
    db.deploy(contract(25), kit::relay(pc_addr(PC_WRITE_ERR_TO_FATAL), kit::CallKind::StaticCall, false, true));
    db.deploy(contract(26), kit::relay(pc_addr(PC_WRITE_THEN_HALT), kit::CallKind::Call, false, true));
    db.deploy(contract(27), kit::relay(pc_addr(PC_SET_BALANCE), kit::CallKind::StaticCall, false, true));
    db
}

pub fn templates() -> Vec<Template> {
    let s = contract(S);
    vec![
        tpl("pc.read(S,1)(e0)", eoa(0), &["S.1", "S.bal"], move |n| call(eoa(0), n, pc_addr(PC_READ), &[word_addr(s), word(1)])),
        tpl("pc.write(S,1,77)(e1)", eoa(1), &["S.1"], move |n| call(eoa(1), n, pc_addr(PC_WRITE), &[word_addr(s), word(1), word(77)])),
        tpl("relay.call(pc.write(S,1,88))(e2)", eoa(2), &["S.1"], move |n| call(eoa(2), n, contract(20), &[word_addr(s), word(1), word(88)])),
        tpl("relay.static(pc.write)(e3)", eoa(3), &["S.1"], move |n| call(eoa(3), n, contract(21), &[word_addr(s), word(1), word(99)])),
        tpl("relay.revert(pc.write(S,1,66))(e2)", eoa(2), &["S.1"], move |n| call(eoa(2), n, contract(22), &[word_addr(s), word(1), word(66)])),
        tpl("store(S,1,5)(e1)", eoa(1), &["S.1"], move |n| call(eoa(1), n, s, &[word(1), word(5)])),
        tpl("static-ignore(S,1)(e0)", eoa(0), &["S.1", "S.bal"], move |n| call(eoa(0), n, contract(23), &[word_addr(s), word(1)])),
        tpl("direct-static-ignore(S,1)(e3)", eoa(3), &["S.1", "S.bal"], move |n| call(eoa(3), n, pc_addr(PC_STATIC_IGNORE), &[word_addr(s), word(1)])),
        tpl("pc.setbal(S,1234)(e3)", eoa(3), &["S.bal"], move |n| call(eoa(3), n, pc_addr(PC_SET_BALANCE), &[word_addr(s), word(1234)])),
        tpl("probe(S)(e2)", eoa(2), &["S.bal"], move |n| call(eoa(2), n, contract(3), &[word_addr(s)])),
        tpl("pc.read(coinbase,0)(e1)", eoa(1), &["coinbase"], |n| call(eoa(1), n, pc_addr(PC_READ), &[word_addr(coinbase()), word(0)])),
        tpl("pc.setbal(coinbase,5)(e2)", eoa(2), &["coinbase"], |n| call(eoa(2), n, pc_addr(PC_SET_BALANCE), &[word_addr(coinbase()), word(5)])),
        tpl("relay(pc.rwr(S,1,+3))(e0)", eoa(0), &["S.1"], move |n| call(eoa(0), n, contract(24), &[word_addr(s), word(1), word(3)])),
        tpl("pc.rwr(S,1,+4)(e3)", eoa(3), &["S.1"], move |n| call(eoa(3), n, pc_addr(PC_READ_WRITE_READ), &[word_addr(s), word(1), word(4)])),
        tpl("xfer(e0>e1)", eoa(0), &["e0"], |n| transfer(eoa(0), n, eoa(1), 9)),
        // implementations that answer a facade error with their own error of the other severity,
        // and a halt after writes (seeded change C11b: the facade's fault must still win)
        tpl("relay.static(pc.write-fatal(S,1,33))(e3)", eoa(3), &["S.1"], move |n| call(eoa(3), n, contract(25), &[word_addr(s), word(1), word(33)])),
        tpl("pc.write-fatal(S,1,34)(e1)", eoa(1), &["S.1"], move |n| call(eoa(1), n, pc_addr(PC_WRITE_ERR_TO_FATAL), &[word_addr(s), word(1), word(34)])),
        tpl("pc.write-halt(S,1,55,halt)(e2)", eoa(2), &["S.1", "S.bal"], move |n| call(eoa(2), n, pc_addr(PC_WRITE_THEN_HALT), &[word_addr(s), word(1), word(55), word(1)])),
        tpl("relay.call(pc.write-halt(S,1,56,halt))(e0)", eoa(0), &["S.1", "S.bal"], move |n| call(eoa(0), n, contract(26), &[word_addr(s), word(1), word(56), word(1)])),
        tpl("pc.write-halt(S,1,57,ok)(e2)", eoa(2), &["S.1", "S.bal"], move |n| call(eoa(2), n, pc_addr(PC_WRITE_THEN_HALT), &[word_addr(s), word(1), word(57), word(0)])),
        tpl("pc.read-halt(S,1)(e3)", eoa(3), &["S.1", "S.bal"], move |n| call(eoa(3), n, pc_addr(PC_READ_ERR_TO_HALT), &[word_addr(s), word(1)])),
        // a static context whose first (and only) mutation is a balance change
        tpl("relay.static(pc.setbal(S,4321))(e1)", eoa(1), &["S.bal"], move |n| call(eoa(1), n, contract(27), &[word_addr(s), word(4321)])),
    ]
}

/// "Discarded or retried attempts contribute nothing": a guard precompile fails *fatally* on the
/// stale value of S.2 (zero until tx0's write is visible), so a speculative attempt of the guard is
/// discarded with an EVM error; the following transactions read the same slot / account through
/// the facade, through an opcode, or write it. Whatever the failed attempt loaded must not leak
/// into the next attempt that runs on the same worker.
pub fn discarded_attempt_cases(spec: SpecId) -> Vec<Case> {
    let s = contract(S);
    let mut db = world();
    db.deploy(contract(8), kit::probe_slot());
    let writer = ("store(S,2,5)(e0)".to_string(), call(eoa(0), 0, s, &[word(2), word(5)]));
    let guard = ("pc.fatal-if-zero(S,2)(e1)".to_string(), call(eoa(1), 0, pc_addr(PC_FATAL_IF_ZERO), &[word_addr(s), word(2)]));
    let followers: Vec<(String, revm_context::TxEnv)> = vec![
        ("pc.read(S,2)(e2)".to_string(), call(eoa(2), 0, pc_addr(PC_READ), &[word_addr(s), word(2)])),
        ("probeslot(S,2)(e2)".to_string(), call(eoa(2), 0, contract(8), &[word_addr(s), word(2)])),
        ("pc.rwr(S,2,+4)(e2)".to_string(), call(eoa(2), 0, pc_addr(PC_READ_WRITE_READ), &[word_addr(s), word(2), word(4)])),
        ("pc.setbal(S,1234)(e2)".to_string(), call(eoa(2), 0, pc_addr(PC_SET_BALANCE), &[word_addr(s), word(1234)])),
    ];
    let mut v = Vec::new();
    for f in followers {
        let label = f.0.clone();
        let mut case = Case::new(format!("c11-discarded:[{label}]"), spec, db.clone(), vec![writer.clone(), guard.clone(), f.clone()]);
        case.precompiles = Some(all());
        v.push(case);
        // the follower between the writer and the guard: the guard's retry runs after it
        let mut case = Case::new(format!("c11-discarded:[{label};guard]"), spec, db.clone(), vec![writer.clone(), f, guard.clone()]);
        case.precompiles = Some(all());
        v.push(case);
    }
    v
}

/// EIP-8037 (Amsterdam): a gas limit above the per-transaction cap leaves the excess in the
/// state-gas reservoir, which a *halting* custom precompile has to hand back unchanged (the adapter
/// builds the halt output itself) - directly, through a relay, and for the static refusal.
fn reservoir_cases() -> Vec<Case> {
    let db = world();
    let ts = templates();
    let pick = |l: &str| ts.iter().position(|t| t.label.starts_with(l)).unwrap();
    let blocks: Vec<Vec<usize>> = vec![
        vec![pick("pc.write-halt(S,1,55,halt)")],
        vec![pick("relay.call(pc.write-halt")],
        vec![pick("relay.static(pc.write)")],
        vec![pick("direct-static-ignore"), pick("pc.write-halt(S,1,57,ok)")],
        vec![pick("pc.write(S,1,77)"), pick("pc.write-halt(S,1,55,halt)"), pick("pc.read(S,1)")],
    ];
    let mut ts2 = ts.clone();
    for t in ts2.iter_mut() {
        let inner = t.build.clone();
        t.build = Arc::new(move |n, nonce_of| {
            let mut tx = inner(n, nonce_of);
            tx.gas_limit = (1u64 << 24) + 300_000;
            tx
        });
    }
    let mut v = Vec::new();
    for seq in blocks {
        if let Some(mut case) = build_case("c11r", SpecId::AMSTERDAM, &db, &ts2, &seq) {
            case.precompiles = Some(all());
            v.push(case);
        }
    }
    v
}

pub fn jobs(tier: Tier) -> Vec<Job> {
    let mut v = jobs_sweep(tier);
    for case in reservoir_cases() {
        v.push(pipeline_job("c11-reservoir", &case, &RunCfg::sequential(), COARSE, 0, false));
        v.push(pipeline_job("c11-reservoir", &case, &RunCfg::parallel(2), COARSE, if tier == Tier::Quick { 1 } else { 2 }, false));
    }
    for case in discarded_attempt_cases(SpecId::CANCUN) {
        match tier {
            Tier::Quick => {
                v.push(pipeline_job("c11-discarded", &case, &RunCfg::parallel(2), COARSE, 2, true));
                v.push(pipeline_job("c11-discarded", &case, &RunCfg::parallel(2), FOCUS_ATTEMPT, 3, true));
            }
            Tier::Thorough => {
                v.push(pipeline_job("c11-discarded", &case, &RunCfg::parallel(2), COARSE, 3, true));
                v.push(pipeline_job("c11-discarded", &case, &RunCfg::parallel(3), COARSE, 2, true));
                v.push(pipeline_job("c11-discarded", &case, &RunCfg::parallel(2), FOCUS_ATTEMPT, 5, true));
                v.push(pipeline_job("c11-discarded", &case, &RunCfg::parallel(2), FINE, 1, true));
            }
        }
        v.push(pipeline_job("c11-discarded", &case, &RunCfg::sequential(), COARSE, 0, false));
    }
    v
}

fn jobs_sweep(tier: Tier) -> Vec<Job> {
    let db = world();
    let templates = templates();
    let pcs = all();
    let mut v = Vec::new();
    let spec = SpecId::CANCUN;
    let max_len = 3;
    for seq in sequences(templates.len(), max_len) {
        if seq.len() >= 2 && !shares_tag(&templates, &seq) {
            continue;
        }
        if seq.len() == 3 && !(shares_tag(&templates, &seq[0..2]) && shares_tag(&templates, &seq[1..3])) {
            continue;
        }
        if seq.len() == 3 && tier == Tier::Quick && seq.iter().enumerate().any(|(i, t)| seq[..i].contains(t)) {
            continue; // quick: no repeated template in length-3 blocks
        }
        if seq.len() == 3 && tier == Tier::Quick && seq.iter().any(|&t| t >= 15) {
            continue; // quick: the error-mapping / halting implementations only in blocks of 1-2
        }
        if seq.len() == 3 && tier == Tier::Quick {
            // quick: length-3 blocks must contain a facade write followed later by a facade read
            let is_w = |t: usize| ["write", "setbal", "rwr", "store("].iter().any(|k| templates[t].label.contains(k));
            let is_r = |t: usize| ["read", "probe", "rwr"].iter().any(|k| templates[t].label.contains(k));
            let ok = (0..3).any(|i| is_w(seq[i]) && (i + 1..3).any(|j| is_r(seq[j])));
            if !ok || (seq[0] + 2 * seq[1] + 3 * seq[2]) % 2 == 1 {
                continue;
            }
        }
        let Some(mut case) = build_case("c11", spec, &db, &templates, &seq) else { continue };
        case.precompiles = Some(pcs.clone());
        let n = seq.len();
        match tier {
            Tier::Quick => {
                if n >= 2 {
                    let is_w = |t: usize| ["write", "setbal", "rwr", "store("].iter().any(|k| templates[t].label.contains(k));
                    let is_r = |t: usize| ["read", "probe", "rwr", "halt", "static"].iter().any(|k| templates[t].label.contains(k));
                    let facade_w = |t: usize| is_w(t) && !templates[t].label.starts_with("store(");
                    let facade_r = |t: usize| ["pc.read", "rwr", "read-halt", "probe("].iter().any(|k| templates[t].label.contains(k));
                    let deep = n == 2 && facade_w(seq[0]) && seq[0] != seq[1] && is_r(seq[1]) && facade_r(seq[1]);
                    v.push(pipeline_job("c11-pc", &case, &RunCfg::parallel(2), COARSE, if deep { 2 } else { 1 }, false));
                }
                v.push(pipeline_job("c11-pc", &case, &RunCfg::sequential(), COARSE, 0, false));
            }
            Tier::Thorough => {
                if n >= 2 {
                    v.push(pipeline_job("c11-pc", &case, &RunCfg::parallel(2), COARSE, if n == 2 { 3 } else { 2 }, false));
                    v.push(pipeline_job("c11-pc", &case, &RunCfg::parallel(2), FINE, 1, false));
                }
                v.push(pipeline_job("c11-pc", &case, &RunCfg::parallel(1), COARSE, 1, false));
                v.push(pipeline_job("c11-pc", &case, &RunCfg::sequential(), COARSE, 0, false));
            }
        }
    }
    v
}
