//! C08 — in-block account deletion, creation and storage reset are seen correctly.
//!
//! All sequences over {deploy, destroy, create+destroy, write, read (balance/code/slots), recreate,
//! touch-empty, inner-frame revert around a destroy} on one address with pre-existing storage and
//! fresh addresses, across fork rule sets; oracle = in-order stock revm (outcomes incl. the
//! probes' stored observations, bundle statuses, reverts with `storage_was_destroyed`).

use super::sweep::*;
use super::*;
use crate::world::*;
use revm_primitives::{hardfork::SpecId, Address, U256};

const F1: u64 = 5; // factory (CREATE2) of vaults
const F2: u64 = 6; // factory (CREATE2) of ephemeral contracts
const F3: u64 = 7; // factory (CREATE) of vaults, for pre-Constantinople rule sets

pub fn x_addr() -> Address {
    create2_address(contract(F1), 1, &kit::vault_init())
}
pub fn z_addr() -> Address {
    create2_address(contract(F1), 3, &kit::vault_init())
}

pub fn world() -> MemDb {
    let mut db = MemDb::default();
    for i in 0..4 {
        db.fund(eoa(i), U256::from(10 * ETHER), 0);
    }
    db.deploy(contract(F1), kit::factory(&kit::vault_init()));
    db.deploy(contract(F2), kit::factory(&kit::ephemeral_init()));
    db.deploy(contract(F3), kit::factory_create(&kit::vault_init()));
    let x = x_addr();
    db.deploy(x, kit::vault());
    db.set_storage(x, 0, 5);
    db.set_storage(x, 1, 9);
    db.accounts.get_mut(&x).unwrap().info.balance = U256::from(1000u64);
    db.deploy(contract(3), kit::probe());
    db.deploy(contract(8), kit::probe_slot());
    db.accounts.insert(fresh(1), AccountData::default()); // existing empty account
    // relay that calls X with empty calldata (destroy) and then reverts: the deletion must not leak
    db.deploy(contract(10), kit::relay(x, kit::CallKind::Call, true, false));
    // relay that calls X (destroy) and keeps it
    db.deploy(contract(11), kit::relay(x, kit::CallKind::Call, false, true));
    db
}

pub fn templates() -> Vec<Template> {
    let (x, z) = (x_addr(), z_addr());
    vec![
        tpl("destroy(X)(e1)", eoa(1), &["X"], move |n| tx(eoa(1), n, Some(x), 0, Default::default())),
        tpl("recreate(X)(e2)", eoa(2), &["X"], |n| tx(eoa(2), n, Some(contract(F1)), 2, calldata(&[word(1)]))),
        tpl("write(X.0=7)(e0)", eoa(0), &["X"], move |n| call(eoa(0), n, x, &[word(0), word(7)])),
        tpl("probe(X)(e3)", eoa(3), &["X"], move |n| call(eoa(3), n, contract(3), &[word_addr(x)])),
        tpl("probeslot(X,0)(e3)", eoa(3), &["X"], move |n| call(eoa(3), n, contract(8), &[word_addr(x), word(0)])),
        tpl("probeslot(X,1)(e0)", eoa(0), &["X"], move |n| call(eoa(0), n, contract(8), &[word_addr(x), word(1)])),
        tpl("create+destroy(Y)(e2)", eoa(2), &["Y"], |n| tx(eoa(2), n, Some(contract(F2)), 3, calldata(&[word(2)]))),
        tpl("deploy(Z)(e1)", eoa(1), &["Z"], |n| tx(eoa(1), n, Some(contract(F1)), 0, calldata(&[word(3)]))),
        tpl("probeslot(Z,0)(e3)", eoa(3), &["Z"], move |n| call(eoa(3), n, contract(8), &[word_addr(z), word(0)])),
        tpl("touch-empty(E)(e0)", eoa(0), &["E"], |n| transfer(eoa(0), n, fresh(1), 0)),
        tpl("probe(E)(e3)", eoa(3), &["E"], |n| call(eoa(3), n, contract(3), &[word_addr(fresh(1))])),
        tpl("revert-around-destroy(X)(e2)", eoa(2), &["X"], |n| tx(eoa(2), n, Some(contract(10)), 0, Default::default())),
        tpl("nested-destroy(X)(e1)", eoa(1), &["X"], |n| tx(eoa(1), n, Some(contract(11)), 0, Default::default())),
        tpl("deploy-create(F3)(e2)", eoa(2), &["F3"], |n| tx(eoa(2), n, Some(contract(F3)), 1, Default::default())),
    ]
}

/// The sweep alphabet plus templates that only the sharp drivers use: slot 3 of X is written by
/// nobody but these (the constructor writes slots 0 and 1), so after a destroy / re-create an older
/// in-block version of it lies *below* the reset marker.
pub fn templates_ext() -> Vec<Template> {
    let x = x_addr();
    let mut v = templates();
    v.push(tpl("write(X.3=8)(e0)", eoa(0), &["X"], move |n| call(eoa(0), n, x, &[word(3), word(8)])));
    v.push(tpl("write(X.3=9)(e2)", eoa(2), &["X"], move |n| call(eoa(2), n, x, &[word(3), word(9)])));
    v.push(tpl("probeslot(X,3)(e3)", eoa(3), &["X"], move |n| call(eoa(3), n, contract(8), &[word_addr(x), word(3)])));
    v
}

/// A destroyer whose deletion depends on a value an earlier transaction of the block writes:
/// with calldata it stores calldata[0] in its slot 0; without, it calls X (which self-destructs)
/// iff its slot 0 is zero (`destroy_when_zero`) resp. non-zero. A stale first incarnation then
/// deletes (or keeps) X and the re-execution does the opposite, so whatever the first incarnation
/// published about X - reset marker, account deletion - has to disappear again.
fn cond_destroyer(x: Address, destroy_when_zero: bool) -> Vec<u8> {
    use crate::world::op::*;
    let a = Asm::new().op(CALLDATASIZE).push_label("set").op(JUMPI).push(0).op(SLOAD);
    let a = if destroy_when_zero { a } else { a.op(ISZERO) };
    a.push_label("skip")
        .op(JUMPI)
        .push(0)
        .push(0)
        .push(0)
        .push(0)
        .push(0)
        .push_addr(x)
        .op(GAS)
        .op(CALL)
        .op(POP)
        .label("skip")
        .op(STOP)
        .label("set")
        .push(0)
        .op(CALLDATALOAD)
        .push(0)
        .op(SSTORE)
        .op(STOP)
        .build()
}

fn conditional_destroy_jobs(tier: Tier, v: &mut Vec<Job>) {
    let x = x_addr();
    for destroy_when_zero in [true, false] {
        let mut db = world();
        db.deploy(contract(12), cond_destroyer(x, destroy_when_zero));
        let tag = if destroy_when_zero { "stale-destroys" } else { "retry-destroys" };
        for reader in ["probeslot(X,1)", "probe(X)", "write(X.0=7)+probeslot(X,0)"] {
            let mut txs = vec![
                ("D.set(1)(e0)".to_string(), call(eoa(0), 0, contract(12), &[word(1)])),
                ("D.go(e1)".to_string(), tx(eoa(1), 0, Some(contract(12)), 0, Default::default())),
            ];
            match reader {
                "probeslot(X,1)" => txs.push(("probeslot(X,1)(e3)".to_string(), call(eoa(3), 0, contract(8), &[word_addr(x), word(1)]))),
                "probe(X)" => txs.push(("probe(X)(e3)".to_string(), call(eoa(3), 0, contract(3), &[word_addr(x)]))),
                _ => {
                    txs.push(("write(X.0=7)(e2)".to_string(), call(eoa(2), 0, x, &[word(0), word(7)])));
                    txs.push(("probeslot(X,0)(e3)".to_string(), call(eoa(3), 0, contract(8), &[word_addr(x), word(0)])));
                }
            }
            for spec in [SpecId::BERLIN, SpecId::SHANGHAI, SpecId::CANCUN] {
                if tier == Tier::Quick && spec != SpecId::BERLIN {
                    continue;
                }
                let case = Case::new(format!("c08:cond-destroy:{tag}:{reader}:{}", spec_name(spec)), spec, db.clone(), txs.clone());
                match tier {
                    Tier::Quick => {
                        v.push(pipeline_job("c08-race", &case, &RunCfg::parallel(2), COARSE, 2, true));
                        v.push(pipeline_job("c08-race", &case, &RunCfg::parallel(2), FINE, 1, false));
                    }
                    Tier::Thorough => {
                        v.push(pipeline_job("c08-race", &case, &RunCfg::parallel(2), COARSE, 3, true));
                        v.push(pipeline_job("c08-race", &case, &RunCfg::parallel(3), COARSE, 2, true));
                        v.push(pipeline_job("c08-race", &case, &RunCfg::parallel(2), FINE, 2, true));
                    }
                }
            }
        }
    }
}

pub fn jobs(tier: Tier) -> Vec<Job> {
    let db = world();
    let templates = templates();
    let mut v = Vec::new();
    let (max_len, specs, bound): (usize, &[SpecId], usize) = match tier {
        Tier::Quick => (3, &[SpecId::FRONTIER, SpecId::SPURIOUS_DRAGON, SpecId::BERLIN, SpecId::CANCUN], 1),
        Tier::Thorough => (
            3,
            &[
                SpecId::FRONTIER,
                SpecId::TANGERINE,
                SpecId::SPURIOUS_DRAGON,
                SpecId::PETERSBURG,
                SpecId::BERLIN,
                SpecId::SHANGHAI,
                SpecId::CANCUN,
                SpecId::PRAGUE,
                SpecId::OSAKA,
            ],
            2,
        ),
    };
    for seq in sequences(templates.len(), max_len) {
        if seq.len() < 2 || !shares_tag(&templates, &seq) {
            continue;
        }
        if seq.len() == 3 {
            if !(shares_tag(&templates, &seq[0..2]) && shares_tag(&templates, &seq[1..3])) {
                continue;
            }
        }
        for &spec in specs {
            let Some(case) = build_case("c08", spec, &db, &templates, &seq) else { continue };
            if tier == Tier::Quick && seq.len() == 3 && (seq[0] * 5 + seq[1] * 3 + seq[2]) % 2 != 0 {
                continue; // quick visits half of the length-3 blocks (thorough: all)
            }
            let on_x = seq.iter().all(|&t| templates[t].tags.contains(&"X"));
            let b = if tier == Tier::Quick && seq.len() == 2 && matches!(spec, SpecId::BERLIN | SpecId::CANCUN) && on_x { 2 } else { bound };
            v.push(pipeline_job("c08-lifecycle", &case, &RunCfg::parallel(2), COARSE, b, false));
        }
    }
    conditional_destroy_jobs(tier, &mut v);
    // readers racing the destroying transaction: deeper schedules on the sharpest pairs
    let sharp: &[&[&str]] = &[
        &["destroy(X)(e1)", "probeslot(X,0)(e3)"],
        &["destroy(X)(e1)", "recreate(X)(e2)", "probeslot(X,0)(e3)"],
        &["destroy(X)(e1)", "probe(X)(e3)"],
        &["create+destroy(Y)(e2)", "create+destroy(Y)(e2)"],
        &["write(X.0=7)(e0)", "destroy(X)(e1)", "probeslot(X,0)(e3)"],
        &["nested-destroy(X)(e1)", "probeslot(X,1)(e0)"],
        &["revert-around-destroy(X)(e2)", "probeslot(X,0)(e3)"],
        &["touch-empty(E)(e0)", "probe(E)(e3)"],
        &["deploy(Z)(e1)", "probeslot(Z,0)(e3)"],
        &["recreate(X)(e2)", "write(X.0=7)(e0)"],
        // a slot version below the reset marker, a write after the re-creation, a late reader
        &["write(X.3=8)(e0)", "destroy(X)(e1)", "recreate(X)(e2)", "probeslot(X,3)(e3)"],
        &["write(X.3=8)(e0)", "destroy(X)(e1)", "recreate(X)(e2)", "write(X.3=9)(e2)", "probeslot(X,3)(e3)"],
        &["write(X.3=8)(e0)", "destroy(X)(e1)", "write(X.3=9)(e2)", "probeslot(X,3)(e3)"],
        &["destroy(X)(e1)", "recreate(X)(e2)", "write(X.3=9)(e2)", "probeslot(X,3)(e3)"],
    ];
    let templates = templates_ext();
    for labels in sharp {
        let seq: Vec<usize> = labels.iter().map(|l| templates.iter().position(|t| t.label == *l).unwrap()).collect();
        for spec in [SpecId::BERLIN, SpecId::CANCUN] {
            let case = build_case("c08", spec, &db, &templates, &seq).unwrap();
            match tier {
                Tier::Quick => {
                    v.push(pipeline_job("c08-race", &case, &RunCfg::parallel(2), COARSE, 2, true));
                    v.push(pipeline_job("c08-race", &case, &RunCfg::parallel(2), FINE, 1, false));
                }
                Tier::Thorough => {
                    v.push(pipeline_job("c08-race", &case, &RunCfg::parallel(2), COARSE, 3, true));
                    v.push(pipeline_job("c08-race", &case, &RunCfg::parallel(2), FINE, 2, true));
                }
            }
        }
    }
    v
}
