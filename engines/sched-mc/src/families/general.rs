//! The general alphabet (DESIGN.md §4 C01): one pre-state with the whole contract kit and 20
//! transaction templates that are forced to collide.

use super::sweep::*;
use crate::world::*;
use revm_primitives::{hardfork::SpecId, Address, U256};

pub const C_INCR: u64 = 0;
pub const C_INDIRECT: u64 = 1;
pub const C_GATE: u64 = 2;
pub const C_PROBE: u64 = 3;
pub const C_VAULT: u64 = 4;
pub const C_FACTORY: u64 = 5;
pub const C_CBREADER: u64 = 6;
pub const C_RELAY_REVERT: u64 = 7;
pub const C_PROBE_SLOT: u64 = 8;
pub const C_STORE: u64 = 9;
pub const C_FACTORY_CREATE: u64 = 16;

/// Address of the contract a create transaction of e3 with nonce 0 deploys (pre-funded in the world).
pub fn created_by_e3() -> Address {
    eoa(3).create(0)
}

pub fn std_world() -> MemDb {
    let mut db = MemDb::default();
    for i in 0..4 {
        db.fund(eoa(i), U256::from(10 * ETHER), 0);
    }
    // e4: poor (funded in-block); e5: never funded; e6: nonce near overflow
    db.fund(eoa(4), U256::ZERO, 0);
    db.fund(eoa(6), U256::from(10 * ETHER), u64::MAX);
    db.deploy(contract(C_INCR), kit::incr());
    db.set_storage(contract(C_INCR), 1, 100);
    db.deploy(contract(C_INDIRECT), kit::indirect());
    db.set_storage(contract(C_INDIRECT), 0, 4);
    db.set_storage(contract(C_INDIRECT), 5, 10);
    db.set_storage(contract(C_INDIRECT), 8, 20);
    db.deploy(contract(C_GATE), gate_settable(eoa(5)));
    db.set_storage(contract(C_GATE), 9, 3);
    db.deploy(contract(C_PROBE), kit::probe());
    db.deploy(contract(C_VAULT), kit::vault());
    db.set_storage(contract(C_VAULT), 0, 5);
    db.set_storage(contract(C_VAULT), 1, 9);
    db.accounts.get_mut(&contract(C_VAULT)).unwrap().info.balance = U256::from(1000u64);
    db.deploy(contract(C_FACTORY), kit::factory(&kit::vault_init()));
    db.deploy(contract(C_CBREADER), kit::coinbase_reader());
    db.deploy(contract(C_RELAY_REVERT), kit::relay(contract(C_INCR), kit::CallKind::Call, true, false));
    db.deploy(contract(C_PROBE_SLOT), kit::probe_slot());
    db.deploy(contract(C_STORE), kit::store());
    db.deploy(contract(C_FACTORY_CREATE), kit::factory_create(&kit::vault_init()));
    db.fund(created_by_e3(), U256::from(77u64), 0);
    db
}

/// `gate` with a setter: with calldata SSTORE(0, calldata[0]); without: the gate branch.
pub fn gate_settable(z: Address) -> Vec<u8> {
    use crate::world::op::*;
    Asm::new()
        .op(CALLDATASIZE)
        .push_label("set")
        .op(JUMPI)
        .push(0)
        .op(SLOAD)
        .push_label("nz")
        .op(JUMPI)
        .push_addr(z)
        .op(BALANCE)
        .push(9)
        .op(SLOAD)
        .op(ADD)
        .push(1)
        .op(ADD)
        .push(1)
        .op(SSTORE)
        .op(STOP)
        .label("nz")
        .push(7)
        .push(1)
        .op(SSTORE)
        .op(STOP)
        .label("set")
        .push(0)
        .op(CALLDATALOAD)
        .push(0)
        .op(SSTORE)
        .op(STOP)
        .build()
}

pub fn child_address() -> Address {
    create2_address(contract(C_FACTORY), 1, &kit::vault_init())
}

pub fn templates() -> Vec<Template> {
    let child = child_address();
    vec![
        tpl("xfer(e0>e1)", eoa(0), &["e0", "e1"], |n| transfer(eoa(0), n, eoa(1), 1000)),
        tpl("fund(e0>e4)", eoa(0), &["e0", "e4"], |n| transfer(eoa(0), n, eoa(4), 2 * ETHER)),
        tpl("xfer(e4>e1)", eoa(4), &["e4", "e1"], |n| transfer(eoa(4), n, eoa(1), ETHER)),
        tpl("xfer(e1>e0)", eoa(1), &["e0", "e1"], |n| transfer(eoa(1), n, eoa(0), 7)),
        tpl("incr(e1)", eoa(1), &["incr.s1"], |n| call(eoa(1), n, contract(C_INCR), &[word(1)])),
        tpl("incr(e2)", eoa(2), &["incr.s1"], |n| call(eoa(2), n, contract(C_INCR), &[word(1)])),
        tpl("ind.set7(e2)", eoa(2), &["ind"], |n| call(eoa(2), n, contract(C_INDIRECT), &[word(7)])),
        tpl("ind.step(e3)", eoa(3), &["ind"], |n| tx(eoa(3), n, Some(contract(C_INDIRECT)), 0, Default::default())),
        tpl("gate.set1(e2)", eoa(2), &["gate"], |n| call(eoa(2), n, contract(C_GATE), &[word(1)])),
        tpl("gate.go(e3)", eoa(3), &["gate"], |n| tx(eoa(3), n, Some(contract(C_GATE)), 0, Default::default())),
        tpl("vault.destroy(e2)", eoa(2), &["vault"], |n| tx(eoa(2), n, Some(contract(C_VAULT)), 0, Default::default())),
        tpl("probe(vault)(e3)", eoa(3), &["vault", "probe"], |n| call(eoa(3), n, contract(C_PROBE), &[word_addr(contract(C_VAULT))])),
        tpl("probeslot(vault,1)(e1)", eoa(1), &["vault", "probeslot"], |n| {
            call(eoa(1), n, contract(C_PROBE_SLOT), &[word_addr(contract(C_VAULT)), word(1)])
        }),
        tpl("factory.create2(e2)", eoa(2), &["child"], |n| call(eoa(2), n, contract(C_FACTORY), &[word(1)])),
        tpl("child.set(3,9)(e3)", eoa(3), &["child"], move |n| call(eoa(3), n, child, &[word(3), word(9)])),
        tpl("cbreader(e1)", eoa(1), &["coinbase"], |n| tx(eoa(1), n, Some(contract(C_CBREADER)), 0, Default::default())),
        tpl("relay-revert(incr)(e3)", eoa(3), &["incr.s1"], |n| call(eoa(3), n, contract(C_RELAY_REVERT), &[word(1)])),
        tpl("1559(e0>e1,tip2)", eoa(0), &["e0", "e1"], |n| with_1559(transfer(eoa(0), n, eoa(1), 5), 20, 2))
            .from_spec(SpecId::LONDON),
        tpl("7702set(e3>incr)(e2)", eoa(2), &["e3", "incr.s1"], |n| {
            with_auths(call(eoa(2), n, eoa(3), &[word(1)]), vec![authorization(eoa(3), 0, contract(C_INCR))])
        })
        .from_spec(SpecId::PRAGUE),
        tpl("nonce+5(e0)", eoa(0), &["e0"], |n| transfer(eoa(0), n, eoa(1), 1)).skew(5),
        tpl("nofunds(e5)", eoa(5), &["e5"], |n| transfer(eoa(5), n, eoa(1), 1)),
        tpl("nonce-max(e6)", eoa(6), &["e6"], |n| transfer(eoa(6), n, eoa(1), 1)),
        // deployment by create transaction (onto an address that already holds a balance) and by
        // CREATE from a factory, a caller of the former, and a zero-price call that changes nothing
        // of its sender but the nonce
        tpl("createtx(e3)", eoa(3), &["e3", "created"], |n| tx(eoa(3), n, None, 0, kit::vault_init().into())),
        tpl("created.set(3,9)(e1)", eoa(1), &["created"], |n| call(eoa(1), n, created_by_e3(), &[word(3), word(9)])),
        tpl("factory.create(e1)", eoa(1), &["fcreate"], |n| tx(eoa(1), n, Some(contract(C_FACTORY_CREATE)), 0, Default::default())),
        tpl("free-incr(e2)", eoa(2), &["incr.s1"], |n| {
            let mut t = call(eoa(2), n, contract(C_INCR), &[word(1)]);
            t.gas_price = 0;
            t
        })
        .until_spec(SpecId::LONDON),
    ]
}
