//! C10 — ParallelState is a faithful stand-in for revm State (bundle, reverts, reads).
//!
//! (a) explicit-state breadth-first search over operation histories on the *real* objects: a state
//!     is a pair (ParallelState, revm State) rebuilt by replaying its history; after every
//!     transition the operation results, the transition states, the bundles and every value
//!     readable through the database interface over a small universe must agree. States are
//!     deduplicated on a canonical digest of both sides.
//! (b) complete interleaving enumeration of cache-filling reads racing the commit of a destroying /
//!     re-creating / writing transaction (through `verif_export::split_for_parallel`).

use super::*;
use crate::job::{SeqFn, SeqReport};
use crate::world::*;
use grevm::{ParallelState, ParallelTakeBundle};
use revm::{Context, Database, DatabaseCommit, DatabaseRef, ExecuteEvm, MainBuilder, MainContext};
use revm_context::{result::ExecutionResult, TxEnv};
use revm_database::{states::bundle_state::BundleRetention, BundleState, State, StateBuilder, WrapDatabaseRef};
use revm_primitives::{hardfork::SpecId, Address, U256};
use revm_state::EvmState;
use std::collections::{BTreeMap, BTreeSet};
use std::hash::{Hash, Hasher};

const F1: u64 = 5; // factory(vault_init)
const F2: u64 = 6; // factory(ephemeral_init)

pub fn x_addr() -> Address {
    create2_address(contract(F1), 1, &kit::vault_init())
}
pub fn y_addr() -> Address {
    create2_address(contract(F2), 2, &kit::ephemeral_init())
}
pub fn e_addr() -> Address {
    fresh(1)
}
pub fn g_addr() -> Address {
    fresh(2)
}

pub fn world() -> MemDb {
    let mut db = MemDb::default();
    db.fund(eoa(0), U256::from(10 * ETHER), 0);
    db.fund(eoa(1), U256::from(10 * ETHER), 0);
    db.deploy(contract(F1), kit::factory(&kit::vault_init()));
    db.deploy(contract(F2), kit::factory(&kit::ephemeral_init()));
    let x = x_addr();
    db.deploy(x, kit::vault());
    db.set_storage(x, 0, 5);
    db.set_storage(x, 1, 9);
    db.set_storage(x, 3, 2);
    db.accounts.get_mut(&x).unwrap().info.balance = U256::from(1000u64);
    db.deploy(y_addr(), kit::vault());
    db.set_storage(y_addr(), 1, 4);
    // an existing *empty* account (EIP-161 touch target)
    db.accounts.insert(e_addr(), AccountData::default());
    db
}

pub fn universe() -> (Vec<Address>, Vec<U256>) {
    (
        vec![x_addr(), y_addr(), e_addr(), g_addr(), eoa(0), eoa(1), contract(F1), contract(F2), coinbase()],
        vec![U256::from(0), U256::from(1), U256::from(3)],
    )
}

#[derive(Clone, Copy, Debug, PartialEq, Eq, Hash, PartialOrd, Ord)]
pub enum Op {
    WriteX0,
    ClearX3,
    DestroyX,
    RecreateX,
    CreateDestroyY,
    DestroyY,
    TouchEmptyE,
    Transfer,
    Increment,
    DrainX,
    MergeReverts,
    MergePlain,
    TakeBundle,
    ParTakeReverts,
    ParTakePlain,
    ReadX,
}

pub const OPS: [Op; 16] = [
    Op::WriteX0,
    Op::ClearX3,
    Op::DestroyX,
    Op::RecreateX,
    Op::CreateDestroyY,
    Op::DestroyY,
    Op::TouchEmptyE,
    Op::Transfer,
    Op::Increment,
    Op::DrainX,
    Op::MergeReverts,
    Op::MergePlain,
    Op::TakeBundle,
    Op::ParTakeReverts,
    Op::ParTakePlain,
    Op::ReadX,
];

impl Op {
    fn name(self) -> String {
        format!("{self:?}")
    }
    fn parse(s: &str) -> Option<Op> {
        OPS.iter().copied().find(|o| o.name() == s)
    }
    fn tx(self, nonce0: u64, nonce1: u64) -> Option<TxEnv> {
        let x = x_addr();
        Some(match self {
            Op::WriteX0 => call(eoa(0), nonce0, x, &[word(0), word(7)]),
            Op::ClearX3 => call(eoa(0), nonce0, x, &[word(3), word(0)]),
            Op::DestroyX => tx(eoa(1), nonce1, Some(x), 0, Default::default()),
            Op::RecreateX => tx(eoa(1), nonce1, Some(contract(F1)), 2, calldata(&[word(1)])),
            Op::CreateDestroyY => tx(eoa(0), nonce0, Some(contract(F2)), 3, calldata(&[word(2)])),
            // Y exists before the block (a destructible vault): destroy it, then create-and-destroy at
            // the same address = Destroyed -> DestroyedAgain with no account on either side
            Op::DestroyY => tx(eoa(1), nonce1, Some(y_addr()), 0, Default::default()),
            Op::TouchEmptyE => transfer(eoa(1), nonce1, e_addr(), 0),
            Op::Transfer => transfer(eoa(0), nonce0, eoa(1), 12345),
            _ => return None,
        })
    }
}

type RefState<'a> = State<WrapDatabaseRef<&'a ExecDb>>;

/// Result of one operation on one side, comparable across sides.
#[derive(Debug, PartialEq)]
enum OpResult {
    Tx(Result<ExecutionResult, String>),
    Drained(Vec<u128>),
    Bundle(BundleState),
    Read(Vec<(Option<revm_state::AccountInfo>, Vec<U256>)>),
    Unit,
}

fn run_tx<DB: Database + DatabaseCommit>(db: &mut DB, spec: SpecId, t: TxEnv) -> Result<ExecutionResult, String>
where
    DB::Error: std::fmt::Debug,
{
    let mut evm = Context::mainnet().with_db(db).with_cfg(cfg_env(spec, false)).with_block(block_env(spec)).build_mainnet();
    match evm.transact(t) {
        Ok(ras) => {
            let state: EvmState = ras.state;
            evm.ctx.journaled_state.database.commit(state);
            Ok(ras.result)
        }
        Err(e) => Err(format!("{e:?}").replace("Database(Database(", "Database(").replace("))", ")")),
    }
}

fn nonce_of<DB: Database>(db: &mut DB, a: Address) -> u64 {
    db.basic(a).ok().flatten().map_or(0, |i| i.nonce)
}

fn apply_par(par: &mut ParallelState<&ExecDb>, spec: SpecId, op: Op) -> OpResult {
    let (n0, n1) = (nonce_of(par, eoa(0)), nonce_of(par, eoa(1)));
    if let Some(t) = op.tx(n0, n1) {
        return OpResult::Tx(run_tx(par, spec, t));
    }
    match op {
        Op::Increment => {
            par.increment_balances([(x_addr(), 5u128), (g_addr(), 3u128), (eoa(0), 0u128)]).unwrap();
            OpResult::Unit
        }
        Op::DrainX => OpResult::Drained(par.drain_balances([x_addr()]).unwrap()),
        Op::MergeReverts => {
            par.merge_transitions(BundleRetention::Reverts);
            OpResult::Unit
        }
        Op::MergePlain => {
            par.merge_transitions(BundleRetention::PlainState);
            OpResult::Unit
        }
        Op::TakeBundle => OpResult::Bundle(crate::case::normalize_bundle(par.take_bundle())),
        Op::ParTakeReverts => OpResult::Bundle(crate::case::normalize_bundle(par.parallel_take_bundle(BundleRetention::Reverts))),
        Op::ParTakePlain => OpResult::Bundle(crate::case::normalize_bundle(par.parallel_take_bundle(BundleRetention::PlainState))),
        Op::ReadX => OpResult::Read(crate::case::read_universe(&*par, &[x_addr()], &universe().1).unwrap()),
        _ => unreachable!(),
    }
}

fn apply_ref(st: &mut RefState<'_>, spec: SpecId, op: Op) -> OpResult {
    let (n0, n1) = (nonce_of(st, eoa(0)), nonce_of(st, eoa(1)));
    if let Some(t) = op.tx(n0, n1) {
        return OpResult::Tx(run_tx(st, spec, t));
    }
    match op {
        Op::Increment => {
            // what revm's State::increment_balances did before it was dropped upstream
            let mut transitions = Vec::new();
            for (a, b) in [(x_addr(), 5u128), (g_addr(), 3u128), (eoa(0), 0u128)] {
                if b == 0 {
                    continue;
                }
                let acc = st.load_cache_account(a).unwrap();
                transitions.push((a, acc.increment_balance(b).expect("non-zero")));
            }
            st.apply_transition(transitions);
            OpResult::Unit
        }
        Op::DrainX => {
            let acc = st.load_cache_account(x_addr()).unwrap();
            let (b, t) = acc.drain_balance();
            st.apply_transition(vec![(x_addr(), t)]);
            OpResult::Drained(vec![b])
        }
        Op::MergeReverts => {
            st.merge_transitions(BundleRetention::Reverts);
            OpResult::Unit
        }
        Op::MergePlain => {
            st.merge_transitions(BundleRetention::PlainState);
            OpResult::Unit
        }
        Op::TakeBundle => OpResult::Bundle(crate::case::normalize_bundle(st.take_bundle())),
        Op::ParTakeReverts => {
            st.merge_transitions(BundleRetention::Reverts);
            OpResult::Bundle(crate::case::normalize_bundle(st.take_bundle()))
        }
        Op::ParTakePlain => {
            st.merge_transitions(BundleRetention::PlainState);
            OpResult::Bundle(crate::case::normalize_bundle(st.take_bundle()))
        }
        Op::ReadX => OpResult::Read(crate::case::read_universe_mut(st, &[x_addr()], &universe().1).unwrap()),
        _ => unreachable!(),
    }
}

/// Account info without the code body (its Debug output is not stable across processes).
fn inf(i: &Option<revm_state::AccountInfo>) -> Option<(U256, u64, revm_primitives::B256)> {
    i.as_ref().map(|i| (i.balance, i.nonce, i.code_hash))
}

fn digest_of(par: &ParallelState<&ExecDb>, st: &RefState<'_>) -> u64 {
    let mut h = std::collections::hash_map::DefaultHasher::new();
    // parallel side
    let mut accts: BTreeMap<Address, String> = BTreeMap::new();
    for kv in par.cache.accounts.iter() {
        accts.insert(*kv.key(), format!("{:?}/{:?}", inf(&kv.value().account), kv.value().status));
    }
    format!("{accts:?}").hash(&mut h);
    let mut stor: BTreeMap<Address, BTreeMap<U256, U256>> = BTreeMap::new();
    for kv in par.cache.storage.iter() {
        stor.insert(*kv.key(), kv.value().iter().map(|s| (*s.key(), *s.value())).collect());
    }
    format!("{stor:?}").hash(&mut h);
    let codes: BTreeSet<_> = par.cache.contracts.iter().map(|kv| *kv.key()).collect();
    format!("{codes:?}").hash(&mut h);
    let tr: Option<BTreeMap<_, _>> =
        par.transition_state.as_ref().map(|t| {
            t.transitions
                .iter()
                .map(|(a, t)| {
                    let st: BTreeMap<_, _> = t.storage.iter().map(|(k, v)| (*k, (v.previous_or_original_value, v.present_value))).collect();
                    (*a, format!("{:?}/{:?}/{:?}/{:?}/{}/{st:?}", inf(&t.info), t.status, inf(&t.previous_info), t.previous_status, t.storage_was_destroyed))
                })
                .collect()
        });
    format!("{tr:?}").hash(&mut h);
    hash_bundle(&par.bundle_state, &mut h);
    // reference side cache (what is loaded matters for its futures)
    let racc: BTreeMap<Address, String> = st.cache.accounts.iter().map(|(a, c)| {
        let storage: Option<BTreeMap<_, _>> = c.account.as_ref().map(|p| p.storage.iter().map(|(k, v)| (*k, *v)).collect());
        (*a, format!("{:?}/{:?}/{:?}", c.status, c.account.as_ref().map(|p| (p.info.balance, p.info.nonce, p.info.code_hash)), storage))
    }).collect();
    format!("{racc:?}").hash(&mut h);
    h.finish()
}

fn hash_bundle(b: &BundleState, h: &mut impl Hasher) {
    let s: BTreeMap<_, _> = b
        .state
        .iter()
        .map(|(a, acc)| {
            let st: BTreeMap<_, _> = acc.storage.iter().map(|(k, v)| (*k, *v)).collect();
            (*a, format!("{:?}/{:?}/{:?}/{:?}", inf(&acc.info), inf(&acc.original_info), acc.status, st))
        })
        .collect();
    format!("{s:?}").hash(h);
    let n = crate::case::normalize_bundle(b.clone());
    for block in n.reverts.iter() {
        for (a, r) in block {
            let st: BTreeMap<_, _> = r.storage.iter().map(|(k, v)| (*k, *v)).collect();
            let acct = match &r.account {
                revm_database::states::reverts::AccountInfoRevert::RevertTo(i) => format!("RevertTo({:?})", (i.balance, i.nonce, i.code_hash)),
                other => format!("{other:?}"),
            };
            format!("{a:?}/{acct}/{:?}/{:?}/{st:?}", r.previous_status, r.wipe_storage).hash(h);
        }
        "|".hash(h);
    }
    (b.state_size, b.reverts_size).hash(h);
    let c: BTreeSet<_> = b.contracts.keys().collect();
    format!("{c:?}").hash(h);
}

/// Replay `history` on fresh objects, checking after every operation. Ok(digest) or Err(detail).
fn replay(spec: SpecId, base: &Arc<MemDb>, history: &[Op]) -> Result<(u64, bool), String> {
    let db = ExecDb::new(base.clone(), None, false, false);
    let mut par: ParallelState<&ExecDb> = ParallelState::new(&db, true, false);
    let mut st: RefState<'_> = StateBuilder::new().with_bundle_update().with_database_ref(&db).build();
    let mut nontrivial = false;
    for (i, &op) in history.iter().enumerate() {
        let rp = std::panic::catch_unwind(std::panic::AssertUnwindSafe(|| apply_par(&mut par, spec, op)))
            .map_err(|p| format!("ParallelState panicked at op #{i} {op:?}: {}", crate::explorer::payload_to_string(&p)))?;
        let rr = apply_ref(&mut st, spec, op);
        if rp != rr {
            return Err(format!("op #{i} {op:?}: ParallelState returned {rp:?}, revm State returned {rr:?}"));
        }
        if par.transition_state != st.transition_state {
            return Err(format!(
                "after op #{i} {op:?}: transition states differ: parallel {:?} vs revm {:?}",
                par.transition_state, st.transition_state
            ));
        }
        let (pb, rb) = (crate::case::normalize_bundle(par.bundle_state.clone()), crate::case::normalize_bundle(st.bundle_state.clone()));
        if pb != rb {
            return Err(format!("after op #{i} {op:?}: accumulated bundles differ: {}", crate::case::bundle_diff(&pb, &rb)));
        }
        if matches!(op, Op::DestroyX | Op::RecreateX | Op::CreateDestroyY | Op::DestroyY | Op::TouchEmptyE | Op::DrainX) {
            nontrivial = true;
        }
    }
    let d = digest_of(&par, &st);
    // every value readable through the database interface (destructive: fills both caches, but the
    // objects are discarded after this)
    let (addrs, slots) = universe();
    let vp = crate::case::read_universe(&par, &addrs, &slots).map_err(|e| format!("{e:?}"))?;
    let vr = crate::case::read_universe_mut(&mut st, &addrs, &slots).map_err(|e| format!("{e:?}"))?;
    if vp != vr {
        for (k, a) in addrs.iter().enumerate() {
            if vp[k] != vr[k] {
                return Err(format!(
                    "reads of {} differ after the history: ParallelState {:?}, revm State {:?}",
                    short(a),
                    vp[k],
                    vr[k]
                ));
            }
        }
    }
    // code by hash
    for a in &addrs {
        if let Some(info) = par.basic_ref(*a).map_err(|e| format!("{e:?}"))? {
            if !info.is_empty_code_hash() {
                let cp = par.code_by_hash_ref(info.code_hash).map_err(|e| format!("{e:?}"))?;
                let cr = st.code_by_hash(info.code_hash).map_err(|e| format!("{e:?}"))?;
                if cp.original_bytes() != cr.original_bytes() {
                    return Err(format!("code of {} differs", short(a)));
                }
            }
        }
    }
    Ok((d, nontrivial))
}

pub fn bfs_job(spec: SpecId, depth: usize) -> Job {
    let id = format!("c10-bfs/{}/depth{depth}", spec_name(spec));
    let seq: SeqFn = Arc::new(move |part, deadline, only| {
        let base = Arc::new(world());
        let mut rep = SeqReport::default();
        let depth = if only.is_some_and(|w| w["selftest"] == true) { depth.min(3) } else { depth };
        let only = only.filter(|w| w.get("history").is_some());
        if let Some(w) = only {
            let hist: Vec<Op> = w["history"].as_array().map(|a| a.iter().filter_map(|s| Op::parse(s.as_str()?)).collect()).unwrap_or_default();
            rep.evaluations = 1;
            if let Err(e) = replay(spec, &base, &hist) {
                rep.violations.push(("history-mismatch".into(), e, w.clone()));
            }
            rep.completed = true;
            return rep;
        }
        let mut seen: BTreeSet<u64> = BTreeSet::new();
        let mut frontier: Vec<Vec<Op>> = vec![vec![]];
        let mut level = 0;
        rep.completed = true;
        'outer: while level < depth && !frontier.is_empty() {
            level += 1;
            let mut next: Vec<Vec<Op>> = Vec::new();
            for h in &frontier {
                for &op in OPS.iter() {
                    let mut h2 = h.clone();
                    h2.push(op);
                    let counted = level > 2 || part.0 == 0;
                    match replay(spec, &base, &h2) {
                        Ok((d, nt)) => {
                            if counted {
                                rep.evaluations += 1;
                                rep.transitions += 1;
                            }
                            if seen.insert(d) {
                                if counted {
                                    rep.states += 1;
                                    if nt {
                                        rep.nontrivial += 1;
                                    }
                                }
                                if rep.samples.len() < 4 && nt && level >= 3 {
                                    rep.samples.push(json!({"history": h2.iter().map(|o| o.name()).collect::<Vec<_>>()}));
                                }
                                next.push(h2);
                            }
                        }
                        Err(e) => {
                            let w = json!({"history": h2.iter().map(|o| o.name()).collect::<Vec<_>>()});
                            rep.violations.push(("history-mismatch".into(), e, w));
                            rep.completed = false;
                            break 'outer;
                        }
                    }
                    if deadline.is_some_and(|d| std::time::Instant::now() > d) {
                        rep.completed = false;
                        break 'outer;
                    }
                }
            }
            if level == 2 {
                // partition the kept level-2 states over the worker processes
                next = next.into_iter().enumerate().filter(|(i, _)| i % part.1 == part.0).map(|(_, h)| h).collect();
            }
            rep.max_depth = level;
            frontier = next;
        }
        rep.digests = seen.into_iter().take(20_000).collect();
        rep.extra = json!({"alphabet": OPS.iter().map(|o| o.name()).collect::<Vec<_>>(), "depth": depth, "spec": spec_name(spec)});
        rep
    });
    seq_job(
        "c10-bfs",
        id,
        json!({"search": "breadth-first over operation histories, dedup on a digest of both sides", "depth": depth, "spec": spec_name(spec)}),
        seq,
    )
}

// ------------------------------------------------------------------------------------------------
// (b) cache-filling reads racing commit
// ------------------------------------------------------------------------------------------------

#[derive(Clone, Copy, Debug, PartialEq, Eq)]
pub enum CommitKind {
    DestroyX,
    DestroyThenRecreateX,
    WriteX,
    TouchEmptyE,
}

#[derive(Clone, Copy, Debug, PartialEq, Eq)]
pub enum ReadKind {
    StorageX(u64),
    BasicX,
    StorageE,
}

/// The EvmStates the committer applies, produced by stock revm on the reference side (real journal
/// output), together with the reference state afterwards.
fn commit_states<'a>(db: &'a ExecDb, spec: SpecId, kind: CommitKind) -> (Vec<EvmState>, RefState<'a>) {
    let mut st: RefState<'a> = StateBuilder::new().with_bundle_update().with_database_ref(db).build();
    let ops: &[Op] = match kind {
        CommitKind::DestroyX => &[Op::DestroyX],
        CommitKind::DestroyThenRecreateX => &[Op::DestroyX, Op::RecreateX],
        CommitKind::WriteX => &[Op::WriteX0],
        CommitKind::TouchEmptyE => &[Op::TouchEmptyE],
    };
    let mut out = Vec::new();
    for op in ops {
        let (n0, n1) = (nonce_of(&mut st, eoa(0)), nonce_of(&mut st, eoa(1)));
        let t = op.tx(n0, n1).unwrap();
        let mut evm = Context::mainnet().with_db(&mut st).with_cfg(cfg_env(spec, false)).with_block(block_env(spec)).build_mainnet();
        let ras = evm.transact(t).expect("reference tx");
        drop(evm);
        out.push(ras.state.clone());
        st.commit(ras.state);
    }
    (out, st)
}

pub fn race_job(spec: SpecId, kind: CommitKind, readers: Vec<ReadKind>, bound: usize) -> Job {
    let id = format!("c10-race/{}/{kind:?}/{readers:?}/d{bound}", spec_name(spec));
    let base = Arc::new(world());
    let body = {
        let base = base.clone();
        let readers = readers.clone();
        Arc::new(move || {
            use grevm_verif_rt as rt;
            // reference: the same commits, sequentially, on revm State
            let refdb = ExecDb::new(base.clone(), None, false, false);
            let (states, mut refstate) = commit_states(&refdb, spec, kind);
            let db = ExecDb::new(base.clone(), None, true, false);
            let mut par: ParallelState<&ExecDb> = ParallelState::new(&db, true, false);
            {
                let (view, mut commit) = grevm::verif_export::split_for_parallel(&mut par);
                rt::thread::scope(|s| {
                    let hs: Vec<_> = readers
                        .iter()
                        .map(|r| {
                            let r = *r;
                            s.spawn(move || {
                                rt::point(rt::pt::HARNESS_OP);
                                match r {
                                    ReadKind::StorageX(slot) => {
                                        let _ = view.storage_ref(x_addr(), U256::from(slot));
                                    }
                                    ReadKind::BasicX => {
                                        let _ = view.basic_ref(x_addr());
                                    }
                                    ReadKind::StorageE => {
                                        let _ = view.storage_ref(e_addr(), U256::from(0));
                                    }
                                }
                            })
                        })
                        .collect();
                    let committer = s.spawn(move || {
                        for state in states {
                            rt::point(rt::pt::HARNESS_OP);
                            // a worker's reads load the accounts before ordered commit applies them
                            for a in state.keys() {
                                let _ = commit.basic_ref(*a);
                            }
                            rt::point(rt::pt::HARNESS_OP);
                            commit.commit(state);
                        }
                    });
                    for h in hs {
                        h.join().unwrap();
                    }
                    committer.join().unwrap();
                });
            }
            // what the state serves afterwards
            let (addrs, slots) = universe();
            let vp = crate::case::read_universe(&par, &addrs, &slots).unwrap();
            let vr = crate::case::read_universe_mut(&mut refstate, &addrs, &slots).unwrap();
            let mut diff = serde_json::Value::Null;
            for (k, a) in addrs.iter().enumerate() {
                if vp[k] != vr[k] {
                    diff = json!({
                        "address": short(a),
                        "parallel": format!("{:?}", vp[k]),
                        "revm": format!("{:?}", vr[k]),
                        "slots_only": vp[k].0 == vr[k].0,
                    });
                    break;
                }
            }
            let mut trace = crate::case::Trace::default();
            // digest the outcome so that distinct end states are counted
            trace.digest = {
                let mut h = std::collections::hash_map::DefaultHasher::new();
                format!("{vp:?}").hash(&mut h);
                h.finish()
            };
            ExecResult { obs: None, trace, extra: diff }
        })
    };
    let describe = json!({"commit": format!("{kind:?}"), "readers": format!("{readers:?}"), "spec": spec_name(spec)});
    let judge = Arc::new(move |res: &ExecResult| {
        if res.extra.is_null() {
            Judgement::Ok
        } else {
            let stale_slot = res.extra["slots_only"].as_bool().unwrap_or(false) &&
                matches!(kind, CommitKind::DestroyX | CommitKind::DestroyThenRecreateX | CommitKind::TouchEmptyE);
            Judgement::Violation {
                key: if stale_slot { "stale-slot-after-clear".into() } else { "race-mismatch".into() },
                detail: format!(
                    "after {kind:?} raced by {readers:?} the state serves {} for {}, revm State serves {}",
                    res.extra["parallel"], res.extra["address"], res.extra["revm"]
                ),
            }
        }
    });
    Job {
        id,
        family: "c10-race",
        gran: COARSE,
        bound,
        split: true,
        step_cap: 5000,
        body,
        judge,
        describe,
        hang_is_violation: true,
        must_be_nontrivial: false,
        show: None,
        seq: None,
    }
}

// ------------------------------------------------------------------------------------------------
// (c) consecutive blocks on the same ParallelState through the scheduler
// ------------------------------------------------------------------------------------------------

/// Block A runs through the parallel pipeline under schedule exploration (with a slow database, so
/// that cache-filling reads overlap commits); block B then runs on the *returned* ParallelState.
/// Outcomes of both blocks and the two-block bundle must equal revm's State driven by A, merge, B,
/// merge.
pub fn two_block_job(spec: SpecId, name: &'static str, a: Vec<(String, TxEnv)>, b: Vec<(String, TxEnv)>, gran: Granularity, bound: usize) -> Job {
    let pcs = super::pc::all();
    use crate::case::{finish, normalize_bundle, Observation};
    use grevm::{Scheduler, TxExecutionOutcome};
    let base = Arc::new(super::c08::world());
    let id = format!("c10-twoblocks/{}/{name}/{}-d{bound}", spec_name(spec), gran.name());
    let labels: Vec<String> = a.iter().chain(b.iter()).map(|(l, _)| l.clone()).collect();
    let (ta, tb): (Arc<Vec<TxEnv>>, Arc<Vec<TxEnv>>) =
        (Arc::new(a.into_iter().map(|x| x.1).collect()), Arc::new(b.into_iter().map(|x| x.1).collect()));
    let expected: Arc<OnceLock<(Vec<TxExecutionOutcome>, BundleState, String)>> = Arc::new(OnceLock::new());
    let pcs_body = pcs.clone();
    let body = {
        let (base, ta, tb) = (base.clone(), ta.clone(), tb.clone());
        Arc::new(move || {
            let db = Arc::new(ExecDb::new(base.clone(), None, true, false));
            crate::case::install_observer(false);
            let state = ParallelState::new(db, true, false);
            let s1 = Scheduler::new_with_runtime_config(cfg_env(spec, false), block_env(spec), ta.clone(), state, Some(pcs_body.clone()), RunCfg::parallel(2).grevm_config());
            let r1 = std::panic::catch_unwind(std::panic::AssertUnwindSafe(|| s1.execute()));
            let trace = crate::case::take_trace();
            let mut reads = String::new();
            let mut obs = match r1 {
                Ok(Ok(())) => {
                    let (mut outcomes, mut state) = s1.take_result_and_state();
                    state.merge_transitions(BundleRetention::Reverts);
                    let s2 = Scheduler::new_with_runtime_config(cfg_env(spec, false), block_env(spec), tb.clone(), state, Some(pcs_body.clone()), RunCfg::sequential().grevm_config());
                    let r2 = std::panic::catch_unwind(std::panic::AssertUnwindSafe(|| s2.execute()));
                    match r2 {
                        Ok(Ok(())) => {
                            let (o2, mut state2) = s2.take_result_and_state();
                            outcomes.extend(o2);
                            // what the state serves through its database interface after both blocks
                            let (addrs, slots) = two_block_universe();
                            reads = format!("{:?}", crate::case::read_universe(&state2, &addrs, &slots));
                            let bundle = state2.parallel_take_bundle(BundleRetention::Reverts);
                            Observation { error: None, outcomes, bundle, panic: None, reads: None }
                        }
                        other => finish(s2, other),
                    }
                }
                other => finish(s1, other),
            };
            obs.bundle = normalize_bundle(obs.bundle);
            ExecResult { obs: Some(obs), trace, extra: json!(reads) }
        })
    };
    let judge = {
        let (base, ta, tb) = (base.clone(), ta.clone(), tb.clone());
        Arc::new(move |res: &ExecResult| {
            let exp = expected.get_or_init(|| {
                let mut case = Case::new("two-blocks", spec, (*base).clone(), vec![]);
                case.precompiles = Some(pcs.clone());
                let (addrs, slots) = two_block_universe();
                crate::case::reference_blocks(&case, &[ta.clone(), tb.clone()], &addrs, &slots)
            });
            let obs = res.obs.as_ref().unwrap();
            if obs.panic.is_some() || obs.error.is_some() {
                return Judgement::Violation { key: "twoblock-mismatch".into(), detail: format!("error {:?} panic {:?}", obs.error, obs.panic) };
            }
            if obs.outcomes != exp.0 {
                let i = obs.outcomes.iter().zip(&exp.0).position(|(a, b)| a != b).unwrap_or(obs.outcomes.len().min(exp.0.len()));
                return Judgement::Violation {
                    key: "twoblock-mismatch".into(),
                    detail: format!("outcome {i} over the two blocks: got {:?}, expected {:?}", obs.outcomes.get(i), exp.0.get(i)),
                };
            }
            if obs.bundle != exp.1 {
                return Judgement::Violation { key: "twoblock-mismatch".into(), detail: crate::case::bundle_diff(&obs.bundle, &exp.1) };
            }
            let reads = res.extra.as_str().unwrap_or("");
            if reads != exp.2 {
                return Judgement::Violation {
                    key: "stale-slot-after-clear".into(),
                    detail: format!("values readable through the state's database interface after both blocks differ: ParallelState {reads}, revm State {}", exp.2),
                };
            }
            Judgement::Ok
        })
    };
    Job {
        id,
        family: "c10-twoblocks",
        gran,
        bound,
        split: true,
        step_cap: 40_000,
        body,
        judge,
        describe: json!({"spec": spec_name(spec), "txs": labels, "what": "block A parallel (slow database), block B on the returned state"}),
        hang_is_violation: true,
        must_be_nontrivial: false,
        show: None,
        seq: None,
    }
}

fn two_block_universe() -> (Vec<Address>, Vec<U256>) {
    (
        vec![super::c08::x_addr(), super::c08::z_addr(), eoa(0), eoa(1), eoa(2), eoa(3), contract(3), contract(8), fresh(1)],
        vec![U256::from(0), U256::from(1), U256::from(3)],
    )
}

fn two_block_jobs(tier: Tier, v: &mut Vec<Job>) {
    use super::c08::x_addr as x8;
    let x = x8();
    let destroy = ("destroy(X)(e1)".to_string(), tx(eoa(1), 0, Some(x), 0, Default::default()));
    let probe0 = |who: u64, nonce: u64| (format!("probeslot(X,0)(e{who})"), call(eoa(who), nonce, contract(8), &[word_addr(x), word(0)]));
    let probe1 = |who: u64, nonce: u64| (format!("probeslot(X,1)(e{who})"), call(eoa(who), nonce, contract(8), &[word_addr(x), word(1)]));
    let recreate = |nonce: u64| ("recreate(X)(e2)".to_string(), tx(eoa(2), nonce, Some(contract(5)), 2, calldata(&[word(1)])));
    let write = |nonce: u64| ("write(X.0=7)(e0)".to_string(), call(eoa(0), nonce, x, &[word(0), word(7)]));
    for spec in [SpecId::BERLIN, SpecId::CANCUN] {
        let sets: Vec<(&'static str, Vec<(String, TxEnv)>, Vec<(String, TxEnv)>)> = vec![
            ("destroy|probe -> probe", vec![destroy.clone(), probe0(3, 0)], vec![probe0(3, 1), probe1(0, 0)]),
            ("probe|destroy -> probe,write", vec![probe0(3, 0), destroy.clone()], vec![probe0(3, 1), write(0)]),
            ("destroy|recreate|probe -> probe", vec![destroy.clone(), recreate(0), probe1(3, 0)], vec![probe0(3, 1), probe1(0, 0)]),
        ];
        let pcread = |who: u64, nonce: u64| {
            (format!("pc.read(X,0)(e{who})"), call(eoa(who), nonce, super::pc::pc_addr(super::pc::PC_READ), &[word_addr(x), word(0)]))
        };
        let mut sets = sets;
        // a facade read does not touch the account, so nothing clears the slot cache again
        sets.push(("destroy|pc.read -> pc.read", vec![destroy.clone(), pcread(3, 0)], vec![pcread(3, 1)]));
        sets.push(("pc.read|destroy -> pc.read", vec![pcread(3, 0), destroy.clone()], vec![pcread(3, 1)]));
        for (name, a, b) in sets {
            match tier {
                Tier::Quick => {
                    v.push(two_block_job(spec, name, a.clone(), b.clone(), COARSE, 2));
                    // the pipeline witness of F1 needs four deviations; the 3-transaction set is
                    // four times as expensive and gets bound 3 here (5 in the thorough tier)
                    let b4 = if a.len() >= 3 { 3 } else { 4 };
                    v.push(two_block_job(spec, name, a, b, FOCUS_FILL, b4));
                }
                Tier::Thorough => {
                    v.push(two_block_job(spec, name, a.clone(), b.clone(), COARSE, 3));
                    v.push(two_block_job(spec, name, a.clone(), b.clone(), FOCUS_FILL, 5));
                    v.push(two_block_job(spec, name, a, b, FINE, 2));
                }
            }
        }
    }
}

pub fn jobs(tier: Tier) -> Vec<Job> {
    let mut v = Vec::new();
    two_block_jobs(tier, &mut v);
    match tier {
        Tier::Quick => {
            v.push(bfs_job(SpecId::BERLIN, 5));
            v.push(bfs_job(SpecId::CANCUN, 5));
        }
        Tier::Thorough => {
            v.push(bfs_job(SpecId::BERLIN, 7));
            v.push(bfs_job(SpecId::CANCUN, 7));
            v.push(bfs_job(SpecId::SPURIOUS_DRAGON, 6));
        }
    }
    // complete interleaving enumeration: the bound exceeds the number of decisions of the driver
    let complete = 64;
    for spec in [SpecId::BERLIN, SpecId::CANCUN] {
        for kind in [CommitKind::DestroyX, CommitKind::DestroyThenRecreateX, CommitKind::WriteX, CommitKind::TouchEmptyE] {
            v.push(race_job(spec, kind, vec![ReadKind::StorageX(0)], complete));
            v.push(race_job(spec, kind, vec![ReadKind::BasicX], complete));
            v.push(race_job(spec, kind, vec![ReadKind::StorageE], complete));
            v.push(race_job(spec, kind, vec![ReadKind::StorageX(0), ReadKind::StorageX(1)], if tier == Tier::Quick { 4 } else { complete }));
            v.push(race_job(spec, kind, vec![ReadKind::StorageX(0), ReadKind::BasicX], if tier == Tier::Quick { 4 } else { complete }));
        }
    }
    v
}
