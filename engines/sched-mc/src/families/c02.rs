//! C02 — commits are in order, exactly once, final, and equal the in-order effect.
//!
//! Oracle on *every commit event* of every explored execution (hook: `COMMIT_BEGIN`/`COMMIT_END`
//! in ordered commit): the k-th commit event is for transaction k, its execution result and its
//! touched-account delta (after the deferred fee has been folded in) equal those of the k-th step
//! of the in-order reference, and the committed cursor published afterwards is k+1. The final
//! observation is compared as in C01.

use super::*;
use crate::families::blocks;
use revm_primitives::hardfork::SpecId;

pub fn commit_job(family: &'static str, case: &Case, run: &RunCfg, gran: Granularity, bound: usize, split: bool) -> Job {
    let mut run = run.clone();
    run.collect_commits = true;
    let mut job = pipeline_job(family, case, &run, gran, bound, split);
    let expected: Arc<OnceLock<Expected>> = Arc::new(OnceLock::new());
    let case = case.clone();
    let fault = run.fault.clone();
    job.judge = Arc::new(move |res: &ExecResult| {
        let exp = expected.get_or_init(|| reference(&case, fault.clone()));
        let t = &res.trace;
        for (k, c) in t.commits.iter().enumerate() {
            if c.txid != k {
                return Judgement::Violation {
                    key: "commit-order".into(),
                    detail: format!("commit event #{k} is for transaction {} (commits must be 0,1,2,.. each once)", c.txid),
                };
            }
            let Some(e) = exp.commits.iter().find(|e| e.txid == k) else {
                return Judgement::Violation {
                    key: "commit-of-uncommittable".into(),
                    detail: format!("transaction {k} was committed by the parallel pipeline but in-order execution does not execute it: {:?}", exp.obs.outcomes.get(k)),
                };
            };
            if c != e {
                return Judgement::Violation {
                    key: "commit-effect".into(),
                    detail: format!("commit event for tx {k} differs from in-order step {k}: got {c:?}, expected {e:?}"),
                };
            }
        }
        for (k, &(txid, cursor)) in t.commit_cursor_after.iter().enumerate() {
            if txid != k || cursor != k + 1 {
                return Judgement::Violation {
                    key: "commit-cursor".into(),
                    detail: format!("after commit #{k}: txid {txid}, published committed cursor {cursor} (expected {k} and {})", k + 1),
                };
            }
        }
        let obs = res.obs.as_ref().expect("observation");
        if obs.same_as(&exp.obs) {
            Judgement::Ok
        } else {
            Judgement::Violation { key: "mismatch".into(), detail: obs.diff(&exp.obs) }
        }
    });
    job.must_be_nontrivial = true;
    job
}

pub fn drivers(spec: SpecId) -> Vec<Case> {
    vec![
        blocks::nonce_chain(spec, 3),
        blocks::funding_chain(spec, 3),
        blocks::indirect_chain(spec, 3),
        blocks::incr_same_slot(spec, 3),
        blocks::coinbase_reader_after_payers(spec),
        blocks::late_write_chain(spec),
        blocks::early_write_chain(spec),
    ]
}

pub fn jobs(tier: Tier) -> Vec<Job> {
    let mut v = Vec::new();
    let spec = SpecId::CANCUN;
    let ds = drivers(spec);
    // the fee credit folded in at commit when the fee recipient is deleted in the middle of the
    // block (seeded change C02d/C07b: a committer-side copy of the recipient's account)
    {
        use super::c07::{beneficiary_of, templates as fee_templates, world as fee_world, Fee, Role};
        let role = Role::SelfDestructing;
        let ts = fee_templates(role, Fee::Legacy10);
        let pick = |l: &str| ts.iter().position(|t| t.label == l).unwrap();
        for labels in [vec!["pay(e2>e3)", "coinbase.destroy(e0)", "pay-incr(e3)", "pay(e2>e3)"], vec!["coinbase.destroy(e0)", "pay(e2>e3)", "read-coinbase(e1)"]] {
            let seq: Vec<usize> = labels.iter().map(|l| pick(l)).collect();
            for fork in [SpecId::BERLIN, SpecId::CANCUN] {
                let mut case = super::sweep::build_case("c02:coinbase-destroyed", fork, &fee_world(role), &ts, &seq).unwrap();
                case.env.beneficiary = beneficiary_of(role);
                v.push(commit_job("c02-commit", &case, &RunCfg::parallel(2), COARSE, if tier == Tier::Quick { 1 } else { 2 }, false));
            }
        }
    }
    // speculation reading the shared cache while ordered commit applies, publishes and releases
    for c in [blocks::nonce_chain(spec, 3), blocks::incr_same_slot(spec, 3), blocks::coinbase_reader_after_payers(spec)] {
        let mut run = RunCfg::parallel(2);
        run.slow_db = true;
        v.push(commit_job("c02-commit", &c, &run, FOCUS_COMMIT, if tier == Tier::Quick { 3 } else { 4 }, true));
    }
    v.push(commit_job("c02-commit", &blocks::funding_chain(spec, 2), &RunCfg::parallel(2), FOCUS_ATTEMPT, if tier == Tier::Quick { 4 } else { 5 }, true));
    match tier {
        Tier::Quick => {
            for c in &ds {
                v.push(commit_job("c02-commit", c, &RunCfg::parallel(2), COARSE, 2, true));
                v.push(commit_job("c02-commit", c, &RunCfg::parallel(2), FINE, 1, true));
                v.push(commit_job("c02-commit", c, &RunCfg::parallel(3), COARSE, 1, true));
            }
            v.push(commit_job("c02-commit", &ds[0], &RunCfg::parallel(2), COARSE, 3, true));
            // the claim-to-lock windows need four deviations (seeded change C01-finality-lower-ts):
            // bound 4 on the chains whose re-executions add or drop write locations, 3 elsewhere
            for c in &ds {
                let deep = matches!(c.name.as_str(), "late-write-chain" | "early-write-chain" | "indirect-chain3");
                v.push(commit_job("c02-commit", c, &RunCfg::parallel(2), FOCUS_VALIDATION, if deep { 4 } else { 3 }, true));
            }
        }
        Tier::Thorough => {
            for c in &ds {
                v.push(commit_job("c02-commit", c, &RunCfg::parallel(2), COARSE, 3, true));
                v.push(commit_job("c02-commit", c, &RunCfg::parallel(3), COARSE, 2, true));
                v.push(commit_job("c02-commit", c, &RunCfg::parallel(2), FINE, 2, true));
            }
            v.push(commit_job("c02-commit", &blocks::nonce_chain(spec, 2), &RunCfg::parallel(2), FINE, 3, true));
            v.push(commit_job("c02-commit", &blocks::funding_chain(spec, 2), &RunCfg::parallel(2), FINE, 3, true));
            v.push(commit_job("c02-commit", &ds[0], &RunCfg::parallel(2), COARSE, 4, true));
            v.push(commit_job("c02-commit", &ds[1], &RunCfg::parallel(2), COARSE, 4, true));
            for c in &ds {
                v.push(commit_job("c02-commit", c, &RunCfg::parallel(2), FOCUS_VALIDATION, 5, true));
            }
        }
    }
    v
}
