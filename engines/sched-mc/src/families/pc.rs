//! Test precompiles for C11 / C04 / C05, each written **once** against a small `Facade` trait and
//! installed twice:
//!
//! * in grevm through `DynParallelPrecompile` (the production facade `ParallelPrecompileState` and
//!   the production adapter `to_alloy`), and
//! * in the in-order reference through a stock Alloy `DynPrecompile` whose facade and adapter are an
//!   **independent re-statement of the documented contract** (`RefFacade` / `ref_adapter` below):
//!   reads and writes go to the journal through Alloy's `EvmInternals`; a mutation in a static
//!   context is refused before any change; the first fault the facade returns is sticky and takes
//!   effect (halt or fatal) whatever the implementation returns afterwards.
//!
//! So a change to `src/precompile.rs` moves only one side of the comparison.

use crate::world::*;
use alloy_evm::precompiles::{DynPrecompile, PrecompileInput};
use alloy_evm::EvmInternals;
use grevm::{DynParallelPrecompile, ParallelPrecompileError, ParallelPrecompileState};
use revm::precompile::{PrecompileError, PrecompileHalt, PrecompileId, PrecompileOutput};
use revm_primitives::{Address, Bytes, U256};
use std::sync::Arc;

pub fn pc_addr(i: u64) -> Address {
    addr(0x5000 + i)
}
pub const PC_READ: u64 = 0;
pub const PC_WRITE: u64 = 1;
pub const PC_STATIC_IGNORE: u64 = 2;
pub const PC_SET_BALANCE: u64 = 3;
pub const PC_FATAL_IF_ZERO: u64 = 4;
pub const PC_FAULT_IGNORE: u64 = 5;
pub const PC_PANIC: u64 = 6;
pub const PC_READ_WRITE_READ: u64 = 7;
/// maps any error of a facade read to its own *halt* (a database fault must still be fatal)
pub const PC_READ_ERR_TO_HALT: u64 = 8;
/// maps any error of a facade write to its own *fatal* error (a static refusal must still be a halt)
pub const PC_WRITE_ERR_TO_FATAL: u64 = 9;
/// writes, then reads back, then halts on request: writes of a halted call must not survive
pub const PC_WRITE_THEN_HALT: u64 = 10;

fn arg_addr(data: &[u8], i: usize) -> Address {
    let mut w = [0u8; 32];
    let s = i * 32;
    if data.len() >= s + 32 {
        w.copy_from_slice(&data[s..s + 32]);
    }
    Address::from_slice(&w[12..])
}
fn arg_u256(data: &[u8], i: usize) -> U256 {
    let mut w = [0u8; 32];
    let s = i * 32;
    if data.len() >= s + 32 {
        w.copy_from_slice(&data[s..s + 32]);
    }
    U256::from_be_bytes(w)
}

pub const PC_PANIC_MSG: &str = "injected precompile panic";

/// Facade error as the test bodies see it.
#[derive(Clone, Debug)]
pub enum FErr {
    Halt(PrecompileHalt),
    Fatal(PrecompileError),
}

/// The capability the bodies are written against.
pub trait Facade {
    fn balance(&mut self, a: Address) -> Result<U256, FErr>;
    fn sload(&mut self, a: Address, k: U256) -> Result<U256, FErr>;
    fn sstore(&mut self, a: Address, k: U256, v: U256) -> Result<(), FErr>;
    fn set_balance(&mut self, a: Address, b: U256) -> Result<(), FErr>;
}

type Body = fn(&mut dyn Facade, &[u8], u64) -> Result<PrecompileOutput, FErr>;

// ------------------------------------------------------------------------------------------------
// the production side
// ------------------------------------------------------------------------------------------------

struct GrevmFacade<'a, 'b>(&'a mut ParallelPrecompileState<'b>);

fn from_grevm(e: ParallelPrecompileError) -> FErr {
    match e {
        ParallelPrecompileError::Halt(h) => FErr::Halt(h),
        ParallelPrecompileError::Fatal(f) => FErr::Fatal(f),
    }
}
fn to_grevm(e: FErr) -> ParallelPrecompileError {
    match e {
        FErr::Halt(h) => ParallelPrecompileError::Halt(h),
        FErr::Fatal(f) => ParallelPrecompileError::Fatal(f),
    }
}

impl Facade for GrevmFacade<'_, '_> {
    fn balance(&mut self, a: Address) -> Result<U256, FErr> {
        self.0.balance(a).map(|l| l.data).map_err(from_grevm)
    }
    fn sload(&mut self, a: Address, k: U256) -> Result<U256, FErr> {
        self.0.sload(a, k).map(|l| l.data).map_err(from_grevm)
    }
    fn sstore(&mut self, a: Address, k: U256, v: U256) -> Result<(), FErr> {
        self.0.sstore(a, k, v).map(|_| ()).map_err(from_grevm)
    }
    fn set_balance(&mut self, a: Address, b: U256) -> Result<(), FErr> {
        self.0.set_balance(a, b).map(|_| ()).map_err(from_grevm)
    }
}

fn grevm_precompile(name: &str, body: Body) -> DynParallelPrecompile {
    DynParallelPrecompile::new(PrecompileId::Custom(name.to_string().into()), move |input| {
        let data = input.data().to_vec();
        let reservoir = input.reservoir();
        let mut f = GrevmFacade(input.state());
        body(&mut f, &data, reservoir).map_err(to_grevm)
    })
}

// ------------------------------------------------------------------------------------------------
// the reference side: independent facade + adapter over stock Alloy
// ------------------------------------------------------------------------------------------------

struct RefFacade<'a> {
    internals: EvmInternals<'a>,
    is_static: bool,
    fault: Option<FErr>,
}

impl RefFacade<'_> {
    fn healthy(&self) -> Result<(), FErr> {
        match &self.fault {
            Some(f) => Err(f.clone()),
            None => Ok(()),
        }
    }
    fn fail<T>(&mut self, e: FErr) -> Result<T, FErr> {
        if self.fault.is_none() {
            self.fault = Some(e);
        }
        Err(self.fault.clone().unwrap())
    }
    fn db<T>(&mut self, e: impl std::fmt::Display) -> Result<T, FErr> {
        self.fail(FErr::Fatal(PrecompileError::Fatal(e.to_string())))
    }
    fn mutable(&mut self) -> Result<(), FErr> {
        self.healthy()?;
        if self.is_static {
            return self.fail(FErr::Halt(PrecompileHalt::other_static("state change during static call")));
        }
        Ok(())
    }
}

impl Facade for RefFacade<'_> {
    fn balance(&mut self, a: Address) -> Result<U256, FErr> {
        self.healthy()?;
        match self.internals.load_account(a) {
            Ok(l) => Ok(l.data.info.balance),
            Err(e) => self.db(e),
        }
    }
    fn sload(&mut self, a: Address, k: U256) -> Result<U256, FErr> {
        self.healthy()?;
        match self.internals.sload(a, k) {
            Ok(l) => Ok(l.data),
            Err(e) => self.db(e),
        }
    }
    fn sstore(&mut self, a: Address, k: U256, v: U256) -> Result<(), FErr> {
        self.mutable()?;
        match self.internals.sstore(a, k, v) {
            Ok(_) => Ok(()),
            Err(e) => self.db(e),
        }
    }
    fn set_balance(&mut self, a: Address, b: U256) -> Result<(), FErr> {
        self.mutable()?;
        match self.internals.set_balance(a, b) {
            Ok(()) => Ok(()),
            Err(e) => self.db(e),
        }
    }
}

fn ref_precompile(name: &str, body: Body) -> DynPrecompile {
    DynPrecompile::new_stateful(PrecompileId::Custom(name.to_string().into()), move |input: PrecompileInput<'_>| {
        let PrecompileInput { data, reservoir, is_static, internals, .. } = input;
        let mut f = RefFacade { internals, is_static, fault: None };
        let result = body(&mut f, data, reservoir);
        // a fault the facade returned takes effect whatever the implementation made of it
        let result = match f.fault.take() {
            Some(fault) => Err(fault),
            None => result,
        };
        match result {
            Ok(out) => Ok(out),
            Err(FErr::Halt(h)) => Ok(PrecompileOutput::halt(h, reservoir)),
            Err(FErr::Fatal(e)) => Err(e),
        }
    })
}

// ------------------------------------------------------------------------------------------------
// the bodies
// ------------------------------------------------------------------------------------------------

fn point() {
    grevm_verif_rt::point(grevm_verif_rt::pt::HARNESS_PRECOMPILE);
}

// (address, slot) -> balance(address) ++ sload(address, slot) ++ sload(address, slot) again
fn b_read(f: &mut dyn Facade, data: &[u8], reservoir: u64) -> Result<PrecompileOutput, FErr> {
    let a = arg_addr(data, 0);
    let slot = arg_u256(data, 1);
    point();
    let bal = f.balance(a)?;
    let v1 = f.sload(a, slot)?;
    point();
    let v2 = f.sload(a, slot)?;
    let mut out = Vec::with_capacity(96);
    out.extend_from_slice(&bal.to_be_bytes::<32>());
    out.extend_from_slice(&v1.to_be_bytes::<32>());
    out.extend_from_slice(&v2.to_be_bytes::<32>());
    Ok(PrecompileOutput::new(150, Bytes::from(out), reservoir))
}

// (address, slot, value) -> sstore
fn b_write(f: &mut dyn Facade, data: &[u8], reservoir: u64) -> Result<PrecompileOutput, FErr> {
    f.sstore(arg_addr(data, 0), arg_u256(data, 1), arg_u256(data, 2))?;
    Ok(PrecompileOutput::new(300, Bytes::new(), reservoir))
}

// mutates regardless of context and ignores the facade's refusal
fn b_static_ignore(f: &mut dyn Facade, data: &[u8], reservoir: u64) -> Result<PrecompileOutput, FErr> {
    let a = arg_addr(data, 0);
    let _ = f.sstore(a, arg_u256(data, 1), U256::from(0xbad));
    let _ = f.set_balance(a, U256::from(0xbad));
    Ok(PrecompileOutput::new(100, Bytes::from(vec![1u8]), reservoir))
}

// (address, balance) -> set_balance
fn b_set_balance(f: &mut dyn Facade, data: &[u8], reservoir: u64) -> Result<PrecompileOutput, FErr> {
    f.set_balance(arg_addr(data, 0), arg_u256(data, 1))?;
    Ok(PrecompileOutput::new(200, Bytes::new(), reservoir))
}

// (address, slot): fatal error iff the slot is zero (state-dependent fatal precompile error)
fn b_fatal_if_zero(f: &mut dyn Facade, data: &[u8], reservoir: u64) -> Result<PrecompileOutput, FErr> {
    let v = f.sload(arg_addr(data, 0), arg_u256(data, 1))?;
    if v.is_zero() {
        return Err(FErr::Fatal(PrecompileError::Fatal("slot is zero".into())));
    }
    Ok(PrecompileOutput::new(100, Bytes::from(v.to_be_bytes::<32>().to_vec()), reservoir))
}

// reads and ignores a database fault returned by the facade
fn b_fault_ignore(f: &mut dyn Facade, data: &[u8], reservoir: u64) -> Result<PrecompileOutput, FErr> {
    let v = f.sload(arg_addr(data, 0), arg_u256(data, 1)).unwrap_or(U256::from(0xdead));
    Ok(PrecompileOutput::new(100, Bytes::from(v.to_be_bytes::<32>().to_vec()), reservoir))
}

fn b_panic(_f: &mut dyn Facade, _data: &[u8], _reservoir: u64) -> Result<PrecompileOutput, FErr> {
    panic!("{}", PC_PANIC_MSG);
}

// (address, slot, value): read, write old + value, read again -> old ++ new (read-your-writes)
fn b_rwr(f: &mut dyn Facade, data: &[u8], reservoir: u64) -> Result<PrecompileOutput, FErr> {
    let a = arg_addr(data, 0);
    let slot = arg_u256(data, 1);
    let old = f.sload(a, slot)?;
    f.sstore(a, slot, old + arg_u256(data, 2))?;
    point();
    let new = f.sload(a, slot)?;
    let mut out = Vec::with_capacity(64);
    out.extend_from_slice(&old.to_be_bytes::<32>());
    out.extend_from_slice(&new.to_be_bytes::<32>());
    Ok(PrecompileOutput::new(400, Bytes::from(out), reservoir))
}

// (address, slot): balance + sload; any facade error becomes this implementation's own halt
fn b_read_err_to_halt(f: &mut dyn Facade, data: &[u8], reservoir: u64) -> Result<PrecompileOutput, FErr> {
    let a = arg_addr(data, 0);
    let own = || FErr::Halt(PrecompileHalt::other_static("read failed"));
    let bal = f.balance(a).map_err(|_| own())?;
    let v = f.sload(a, arg_u256(data, 1)).map_err(|_| own())?;
    Ok(PrecompileOutput::new(120, Bytes::from((bal + v).to_be_bytes::<32>().to_vec()), reservoir))
}

// (address, slot, value): sstore; any facade error becomes this implementation's own fatal error
fn b_write_err_to_fatal(f: &mut dyn Facade, data: &[u8], reservoir: u64) -> Result<PrecompileOutput, FErr> {
    f.sstore(arg_addr(data, 0), arg_u256(data, 1), arg_u256(data, 2))
        .map_err(|_| FErr::Fatal(PrecompileError::Fatal("write failed".into())))?;
    Ok(PrecompileOutput::new(300, Bytes::new(), reservoir))
}

// (address, slot, value, halt?): sstore, set_balance(+1), then halt iff the fourth word is non-zero
fn b_write_then_halt(f: &mut dyn Facade, data: &[u8], reservoir: u64) -> Result<PrecompileOutput, FErr> {
    let a = arg_addr(data, 0);
    f.sstore(a, arg_u256(data, 1), arg_u256(data, 2))?;
    let bal = f.balance(a)?;
    f.set_balance(a, bal + U256::from(1u64))?;
    if !arg_u256(data, 3).is_zero() {
        return Err(FErr::Halt(PrecompileHalt::other_static("halt after write")));
    }
    Ok(PrecompileOutput::new(350, Bytes::new(), reservoir))
}

const TABLE: &[(u64, &str, Body)] = &[
    (PC_READ, "verif-read", b_read),
    (PC_WRITE, "verif-write", b_write),
    (PC_STATIC_IGNORE, "verif-static-ignore", b_static_ignore),
    (PC_SET_BALANCE, "verif-set-balance", b_set_balance),
    (PC_FATAL_IF_ZERO, "verif-fatal-if-zero", b_fatal_if_zero),
    (PC_FAULT_IGNORE, "verif-fault-ignore", b_fault_ignore),
    (PC_PANIC, "verif-panic", b_panic),
    (PC_READ_WRITE_READ, "verif-rwr", b_rwr),
    (PC_READ_ERR_TO_HALT, "verif-read-err-to-halt", b_read_err_to_halt),
    (PC_WRITE_ERR_TO_FATAL, "verif-write-err-to-fatal", b_write_err_to_fatal),
    (PC_WRITE_THEN_HALT, "verif-write-then-halt", b_write_then_halt),
];

/// The precompiles as grevm receives them.
pub fn all() -> Arc<Vec<(Address, DynParallelPrecompile)>> {
    Arc::new(TABLE.iter().map(|(i, name, body)| (pc_addr(*i), grevm_precompile(name, *body))).collect())
}

/// The same bodies behind the independent reference facade, for the in-order stock-revm run.
pub fn all_ref() -> Arc<Vec<(Address, DynPrecompile)>> {
    Arc::new(TABLE.iter().map(|(i, name, body)| (pc_addr(*i), ref_precompile(name, *body))).collect())
}
