//! Test precompiles (capability-restricted `ParallelPrecompile`s) for C11 / C04 / C05.

use crate::world::*;
use grevm::{DynParallelPrecompile, ParallelPrecompileError};
use revm::precompile::{PrecompileError, PrecompileId, PrecompileOutput};
use revm_primitives::{Address, Bytes, U256};
use std::sync::Arc;

pub fn pc_addr(i: u64) -> Address {
    addr(0x5000 + i)
}
pub const PC_READ: u64 = 0;
pub const PC_WRITE: u64 = 1;
pub const PC_STATIC_IGNORE: u64 = 2;
pub const PC_SET_BALANCE: u64 = 3;
pub const PC_FATAL_IF_ZERO: u64 = 4;
pub const PC_FAULT_IGNORE: u64 = 5;
pub const PC_PANIC: u64 = 6;
pub const PC_READ_WRITE_READ: u64 = 7;

fn arg_addr(data: &[u8], i: usize) -> Address {
    let mut w = [0u8; 32];
    let s = i * 32;
    if data.len() >= s + 32 {
        w.copy_from_slice(&data[s..s + 32]);
    }
    Address::from_slice(&w[12..])
}
fn arg_u256(data: &[u8], i: usize) -> U256 {
    let mut w = [0u8; 32];
    let s = i * 32;
    if data.len() >= s + 32 {
        w.copy_from_slice(&data[s..s + 32]);
    }
    U256::from_be_bytes(w)
}

pub const PC_PANIC_MSG: &str = "injected precompile panic";

pub fn all() -> Arc<Vec<(Address, DynParallelPrecompile)>> {
    let id = |s: &str| PrecompileId::Custom(s.to_string().into());
    let v = vec![
        // (address, slot) -> balance(address) ++ sload(address, slot) ++ sload(address, slot) again
        (
            pc_addr(PC_READ),
            DynParallelPrecompile::new(id("verif-read"), |input| {
                let reservoir = input.reservoir();
                let a = arg_addr(input.data(), 0);
                let slot = arg_u256(input.data(), 1);
                grevm_verif_rt::point(grevm_verif_rt::pt::HARNESS_PRECOMPILE);
                let bal = input.state().balance(a)?.data;
                let v1 = input.state().sload(a, slot)?.data;
                grevm_verif_rt::point(grevm_verif_rt::pt::HARNESS_PRECOMPILE);
                let v2 = input.state().sload(a, slot)?.data;
                let mut out = Vec::with_capacity(96);
                out.extend_from_slice(&bal.to_be_bytes::<32>());
                out.extend_from_slice(&v1.to_be_bytes::<32>());
                out.extend_from_slice(&v2.to_be_bytes::<32>());
                Ok(PrecompileOutput::new(150, Bytes::from(out), reservoir))
            }),
        ),
        // (address, slot, value) -> sstore
        (
            pc_addr(PC_WRITE),
            DynParallelPrecompile::new(id("verif-write"), |input| {
                let reservoir = input.reservoir();
                let a = arg_addr(input.data(), 0);
                let slot = arg_u256(input.data(), 1);
                let value = arg_u256(input.data(), 2);
                input.state().sstore(a, slot, value)?;
                Ok(PrecompileOutput::new(300, Bytes::new(), reservoir))
            }),
        ),
        // mutates regardless of context and ignores the facade's refusal
        (
            pc_addr(PC_STATIC_IGNORE),
            DynParallelPrecompile::new(id("verif-static-ignore"), |input| {
                let reservoir = input.reservoir();
                let a = arg_addr(input.data(), 0);
                let slot = arg_u256(input.data(), 1);
                let _ = input.state().sstore(a, slot, U256::from(0xbad));
                let _ = input.state().set_balance(a, U256::from(0xbad));
                Ok(PrecompileOutput::new(100, Bytes::from(vec![1u8]), reservoir))
            }),
        ),
        // (address, balance) -> set_balance
        (
            pc_addr(PC_SET_BALANCE),
            DynParallelPrecompile::new(id("verif-set-balance"), |input| {
                let reservoir = input.reservoir();
                let a = arg_addr(input.data(), 0);
                let b = arg_u256(input.data(), 1);
                input.state().set_balance(a, b)?;
                Ok(PrecompileOutput::new(200, Bytes::new(), reservoir))
            }),
        ),
        // (address, slot): fatal error iff the slot is zero (state-dependent fatal precompile error)
        (
            pc_addr(PC_FATAL_IF_ZERO),
            DynParallelPrecompile::new(id("verif-fatal-if-zero"), |input| {
                let reservoir = input.reservoir();
                let a = arg_addr(input.data(), 0);
                let slot = arg_u256(input.data(), 1);
                let v = input.state().sload(a, slot)?.data;
                if v.is_zero() {
                    return Err(ParallelPrecompileError::Fatal(PrecompileError::Fatal("slot is zero".into())));
                }
                Ok(PrecompileOutput::new(100, Bytes::from(v.to_be_bytes::<32>().to_vec()), reservoir))
            }),
        ),
        // reads and ignores a database fault returned by the facade
        (
            pc_addr(PC_FAULT_IGNORE),
            DynParallelPrecompile::new(id("verif-fault-ignore"), |input| {
                let reservoir = input.reservoir();
                let a = arg_addr(input.data(), 0);
                let slot = arg_u256(input.data(), 1);
                let v = input.state().sload(a, slot).map(|l| l.data).unwrap_or(U256::from(0xdead));
                Ok(PrecompileOutput::new(100, Bytes::from(v.to_be_bytes::<32>().to_vec()), reservoir))
            }),
        ),
        (
            pc_addr(PC_PANIC),
            DynParallelPrecompile::new(id("verif-panic"), |_input| {
                panic!("{}", PC_PANIC_MSG);
            }),
        ),
        // (address, slot, value): read, write value, read again -> old ++ new (read-your-writes)
        (
            pc_addr(PC_READ_WRITE_READ),
            DynParallelPrecompile::new(id("verif-rwr"), |input| {
                let reservoir = input.reservoir();
                let a = arg_addr(input.data(), 0);
                let slot = arg_u256(input.data(), 1);
                let value = arg_u256(input.data(), 2);
                let old = input.state().sload(a, slot)?.data;
                input.state().sstore(a, slot, old + value)?;
                grevm_verif_rt::point(grevm_verif_rt::pt::HARNESS_PRECOMPILE);
                let new = input.state().sload(a, slot)?.data;
                let mut out = Vec::with_capacity(64);
                out.extend_from_slice(&old.to_be_bytes::<32>());
                out.extend_from_slice(&new.to_be_bytes::<32>());
                Ok(PrecompileOutput::new(400, Bytes::from(out), reservoir))
            }),
        ),
    ];
    Arc::new(v)
}
