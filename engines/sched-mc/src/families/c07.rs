//! C07 — fee-recipient accounting is exact, deferred or immediate.
//!
//! The beneficiary address plays every role (absent, plain EOA, sender, recipient, contract with
//! storage that is called, created in the block, self-destructing) under every fee setting, with
//! readers (BALANCE / EXTCODESIZE / SLOAD-via-call of the coinbase) placed after paying
//! transactions. Oracle: in-order stock revm (the beneficiary's bundle entry and the readers'
//! stored observations are part of the compared bundle); C02's commit-event oracle additionally
//! pins the beneficiary value after every transaction on the reader drivers.

use super::sweep::*;
use super::*;
use crate::world::*;
use revm_primitives::{hardfork::SpecId, Address, U256};

#[derive(Clone, Copy, Debug, PartialEq, Eq)]
pub enum Role {
    Absent,
    PlainEoa,
    Sender,
    Recipient,
    ContractWithStorage,
    CreatedInBlock,
    SelfDestructing,
    NearOverflow,
    /// a plain account that receives an EIP-7702 delegation inside the block and is then called
    /// and inspected (its code is versioned apart from its balance history)
    DelegatedInBlock,
    /// exists in the database as an *empty* account (nonce 0, balance 0, no code): a zero reward
    /// still touches it, and a touched empty account is deleted from Spurious Dragon on
    EmptyExisting,
}

#[derive(Clone, Copy, Debug, PartialEq, Eq)]
pub enum Fee {
    Legacy10,
    LegacyZero,
    Tip0,
    Tip3,
}

const F1: u64 = 5;

fn created_addr() -> Address {
    create2_address(contract(F1), 1, &kit::vault_init())
}

pub fn beneficiary_of(role: Role) -> Address {
    match role {
        Role::Absent | Role::EmptyExisting => fresh(7),
        Role::PlainEoa | Role::NearOverflow | Role::DelegatedInBlock => eoa(7),
        Role::Sender => eoa(0),
        Role::Recipient => eoa(1),
        Role::ContractWithStorage | Role::SelfDestructing => contract(4),
        Role::CreatedInBlock => created_addr(),
    }
}

pub fn world(role: Role) -> MemDb {
    let mut db = MemDb::default();
    for i in 0..4 {
        db.fund(eoa(i), U256::from(10 * ETHER), 0);
    }
    match role {
        Role::PlainEoa | Role::DelegatedInBlock => db.fund(eoa(7), U256::from(5u64), 0),
        Role::EmptyExisting => {
            db.accounts.insert(fresh(7), AccountData::default());
        }
        Role::NearOverflow => db.fund(eoa(7), U256::MAX - U256::from(100_000u64), 0),
        _ => {}
    }
    db.deploy(contract(4), kit::vault());
    db.set_storage(contract(4), 0, 5);
    db.set_storage(contract(4), 1, 9);
    db.accounts.get_mut(&contract(4)).unwrap().info.balance = U256::from(1000u64);
    db.deploy(contract(F1), kit::factory(&kit::vault_init()));
    db.deploy(contract(6), kit::coinbase_reader());
    db.deploy(contract(8), kit::probe_slot());
    db.deploy(contract(0), kit::incr());
    db.deploy(contract(9), kit::coinbase_hash_reader());
    db.deploy(contract(10), kit::probe());
    db
}

fn fee(t: revm_context::TxEnv, f: Fee) -> revm_context::TxEnv {
    match f {
        Fee::Legacy10 => t,
        Fee::LegacyZero => {
            let mut t = t;
            t.gas_price = 0;
            t
        }
        Fee::Tip0 => with_1559(t, 7, 0),
        Fee::Tip3 => with_1559(t, 30, 3),
    }
}

pub fn templates(role: Role, f: Fee) -> Vec<Template> {
    let cb = beneficiary_of(role);
    let mut v = vec![
        tpl("pay(e2>e3)", eoa(2), &["coinbase"], move |n| fee(transfer(eoa(2), n, eoa(3), 1), f)),
        tpl("pay-incr(e3)", eoa(3), &["coinbase"], move |n| fee(call(eoa(3), n, contract(0), &[word(1)]), f)),
        tpl("read-coinbase(e1)", eoa(1), &["coinbase"], move |n| fee(tx(eoa(1), n, Some(contract(6)), 0, Default::default()), f)),
        tpl("read-coinbase-slot1(e2)", eoa(2), &["coinbase"], move |n| fee(call(eoa(2), n, contract(8), &[word_addr(cb), word(1)]), f)),
    ];
    // EXTCODEHASH tells an absent account (0) from an existing empty one: "an absent beneficiary is
    // materialised only by a non-zero credit", "a zero reward still touches the account"
    v.push(tpl("read-coinbase-hash(e0)", eoa(0), &["coinbase"], move |n| fee(tx(eoa(0), n, Some(contract(9)), 0, Default::default()), f)));
    match role {
        Role::Sender => v.push(tpl("coinbase-sends(e0>e3)", eoa(0), &["coinbase"], move |n| fee(transfer(eoa(0), n, eoa(3), 77), f))),
        Role::Recipient => v.push(tpl("coinbase-receives(e0>e1)", eoa(0), &["coinbase"], move |n| fee(transfer(eoa(0), n, eoa(1), 77), f))),
        Role::ContractWithStorage => {
            v.push(tpl("coinbase.set(1,42)(e0)", eoa(0), &["coinbase"], move |n| fee(call(eoa(0), n, cb, &[word(1), word(42)]), f)))
        }
        Role::SelfDestructing => v.push(tpl("coinbase.destroy(e0)", eoa(0), &["coinbase"], move |n| fee(tx(eoa(0), n, Some(cb), 0, Default::default()), f))),
        Role::CreatedInBlock => {
            v.push(tpl("create-coinbase(e0)", eoa(0), &["coinbase"], move |n| fee(tx(eoa(0), n, Some(contract(F1)), 3, calldata(&[word(1)])), f)));
            v.push(tpl("coinbase.set(1,42)(e1)", eoa(1), &["coinbase"], move |n| fee(call(eoa(1), n, cb, &[word(1), word(42)]), f)));
        }
        Role::DelegatedInBlock => {
            v.push(
                tpl_auth("delegate(coinbase>incr)+call(coinbase,1)(e0)", eoa(0), &["coinbase"], vec![cb], move |n, nonce_of| {
                    fee(with_auths(call(eoa(0), n, cb, &[word(1)]), vec![authorization(cb, nonce_of(cb), contract(0))]), f)
                }),
            );
            v.push(tpl("call(coinbase,1)(e1)", eoa(1), &["coinbase"], move |n| fee(call(eoa(1), n, cb, &[word(1)]), f)));
            v.push(tpl("probe(coinbase)(e3)", eoa(3), &["coinbase"], move |n| fee(call(eoa(3), n, contract(10), &[word_addr(cb)]), f)));
        }
        Role::Absent | Role::PlainEoa | Role::NearOverflow | Role::EmptyExisting => {
            v.push(tpl("send-to-coinbase(e0)", eoa(0), &["coinbase"], move |n| fee(transfer(eoa(0), n, cb, 9), f)))
        }
    }
    v
}

pub fn expressible(role: Role, f: Fee, spec: SpecId) -> bool {
    let london = spec.is_enabled_in(SpecId::LONDON);
    if role == Role::DelegatedInBlock {
        // authorisation lists exist from Prague on; two fee settings are enough for this role
        return spec == SpecId::PRAGUE && matches!(f, Fee::Legacy10 | Fee::Tip3);
    }
    if spec == SpecId::PRAGUE && role != Role::DelegatedInBlock && false {
        return false;
    }
    match f {
        Fee::Legacy10 => true,
        Fee::LegacyZero => !london,
        Fee::Tip0 | Fee::Tip3 => london,
    }
}

pub const ROLES: [Role; 10] = [
    Role::Absent,
    Role::PlainEoa,
    Role::Sender,
    Role::Recipient,
    Role::ContractWithStorage,
    Role::CreatedInBlock,
    Role::SelfDestructing,
    Role::NearOverflow,
    Role::DelegatedInBlock,
    Role::EmptyExisting,
];

pub fn jobs(tier: Tier) -> Vec<Job> {
    let mut v = Vec::new();
    let specs: &[SpecId] = match tier {
        Tier::Quick => &[SpecId::BERLIN, SpecId::CANCUN, SpecId::PRAGUE],
        Tier::Thorough => &[SpecId::BERLIN, SpecId::LONDON, SpecId::CANCUN, SpecId::PRAGUE],
    };
    for role in ROLES {
        for f in [Fee::Legacy10, Fee::LegacyZero, Fee::Tip0, Fee::Tip3] {
            for &spec in specs {
                if !expressible(role, f, spec) {
                    continue;
                }
                if tier == Tier::Quick && spec == SpecId::PRAGUE && role != Role::DelegatedInBlock {
                    continue;
                }
                let db = world(role);
                let templates = templates(role, f);
                let fam: &'static str = "c07-fees";
                for seq in sequences(templates.len(), 3) {
                    if seq.len() < 2 {
                        continue;
                    }
                    // at least one reader or role action, and not only readers
                    let interesting = seq.iter().any(|&t| t >= 2) && seq.iter().any(|&t| t < 2 || t >= 5);
                    if !interesting {
                        continue;
                    }
                    // quick: blocks of three on one rule set per fee setting (the legacy price on the
                    // pre-London one only where it is the only expressible one)
                    if tier == Tier::Quick && seq.len() == 3 && f == Fee::Legacy10 && spec == SpecId::BERLIN {
                        continue;
                    }
                    // quick: half of the blocks of three (thorough: all)
                    if tier == Tier::Quick && seq.len() == 3 && (seq[0] + 2 * seq[1] + 3 * seq[2]) % 2 == 1 {
                        continue;
                    }
                    let name = format!("c07:{role:?}:{f:?}");
                    let Some(mut case) = build_case(&name, spec, &db, &templates, &seq) else { continue };
                    case.env.beneficiary = beneficiary_of(role);
                    let bound = match (tier, seq.len()) {
                        (Tier::Quick, 2)
                            if spec == SpecId::CANCUN &&
                                matches!(seq[1], 2 | 3 | 4) &&
                                f == Fee::Tip3 &&
                                matches!(role, Role::Absent | Role::Sender | Role::ContractWithStorage | Role::NearOverflow | Role::CreatedInBlock | Role::SelfDestructing) =>
                        {
                            2
                        }
                        (Tier::Quick, _) => 1,
                        (Tier::Thorough, 2) => 3,
                        (Tier::Thorough, _) => 2,
                    };
                    v.push(pipeline_job(fam, &case, &RunCfg::parallel(2), COARSE, bound, false));
                }
            }
        }
    }
    // EIP-8037 (Amsterdam): a gas limit above the per-transaction cap leaves the excess in the
    // state-gas reservoir, which the reward has to exclude ("reservoir gas excluded"); state-creating
    // work (fresh slot, fresh account, contract creation) draws on the reservoir
    for role in [Role::Absent, Role::PlainEoa, Role::Sender, Role::ContractWithStorage, Role::CreatedInBlock] {
        for f in [Fee::Legacy10, Fee::Tip3] {
            let spec = SpecId::AMSTERDAM;
            let db = world(role);
            let mut templates = templates(role, f);
            templates.push(tpl("pay-fresh-account(e3)", eoa(3), &["coinbase"], move |n| fee(transfer(eoa(3), n, fresh(3), 5), f)));
            for t in templates.iter_mut() {
                let inner = t.build.clone();
                t.build = Arc::new(move |n, nonce_of| {
                    let mut tx = inner(n, nonce_of);
                    tx.gas_limit = (1u64 << 24) + 300_000;
                    tx
                });
            }
            let max_len = if tier == Tier::Quick { 2 } else { 3 };
            for seq in sequences(templates.len(), max_len) {
                if seq.len() < 2 || !seq.iter().any(|&t| t >= 2) {
                    continue;
                }
                let name = format!("c07r:{role:?}:{f:?}");
                let Some(mut case) = build_case(&name, spec, &db, &templates, &seq) else { continue };
                case.env.beneficiary = beneficiary_of(role);
                v.push(pipeline_job("c07-reservoir", &case, &RunCfg::parallel(2), COARSE, if tier == Tier::Quick { 1 } else { 2 }, false));
            }
        }
    }
    // deferred -> immediate switch inside one block: a nonce-too-low transaction stops the ordered
    // commit, the prefix's rewards were deferred and folded at commit, the suffix is replayed
    // sequentially with immediate rewards; readers and role actions on both sides of the switch
    for role in ROLES {
        for f in [Fee::Legacy10, Fee::Tip3] {
            let spec = SpecId::CANCUN;
            let db = world(role);
            let mut templates = templates(role, f);
            templates.push(tpl("stale-pay(e2>e3)", eoa(2), &["coinbase"], move |n| fee(transfer(eoa(2), n, eoa(3), 1), f)).skew(-1));
            let stale = templates.len() - 1;
            let pay = 0usize;
            let n_other = stale;
            for r in 1..n_other {
                for seq in [vec![pay, stale, r], vec![pay, r, stale, r], vec![r, pay, stale, pay]] {
                    // (the same sender twice gets consecutive nonces from build_case)
                    let name = format!("c07p:{role:?}:{f:?}");
                    let Some(mut case) = build_case(&name, spec, &db, &templates, &seq) else { continue };
                    case.env.beneficiary = beneficiary_of(role);
                    v.push(pipeline_job("c07-replayed", &case, &RunCfg::parallel(2), COARSE, if tier == Tier::Quick { 1 } else { 2 }, false));
                }
            }
        }
    }
    // reward chains longer than the sweeps reach: three and four deferred credits, then readers
    for role in [Role::Absent, Role::PlainEoa, Role::NearOverflow, Role::EmptyExisting] {
        for f in [Fee::Tip3, Fee::Tip0] {
            let db = world(role);
            let templates = templates(role, f);
            let pick = |l: &str| templates.iter().position(|t| t.label == l).unwrap();
            for labels in [
                vec!["pay(e2>e3)", "pay-incr(e3)", "pay(e2>e3)", "read-coinbase(e1)"],
                vec!["pay(e2>e3)", "pay-incr(e3)", "pay(e2>e3)", "pay-incr(e3)", "read-coinbase-hash(e0)", "read-coinbase(e1)"],
            ] {
                let seq: Vec<usize> = labels.iter().map(|l| pick(l)).collect();
                let name = format!("c07c:{role:?}:{f:?}");
                let mut case = build_case(&name, SpecId::CANCUN, &db, &templates, &seq).unwrap();
                case.env.beneficiary = beneficiary_of(role);
                v.push(pipeline_job("c07-chain", &case, &RunCfg::parallel(2), COARSE, if tier == Tier::Quick { 1 } else { 2 }, false));
                v.push(pipeline_job("c07-chain", &case, &RunCfg::parallel(3), COARSE, 1, false));
            }
        }
    }
    // concurrent record / invalidate / resolve on the shared history: reader drivers, deeper and
    // with the commit-event oracle (the beneficiary value after *every* transaction)
    for role in [Role::Absent, Role::Sender, Role::ContractWithStorage, Role::NearOverflow] {
        let f = Fee::Tip3;
        let db = world(role);
        let templates = templates(role, f);
        for labels in [vec!["pay(e2>e3)", "pay-incr(e3)", "read-coinbase(e1)"], vec!["pay(e2>e3)", "read-coinbase(e1)", "read-coinbase-slot1(e2)"]] {
            let seq: Vec<usize> = labels.iter().map(|l| templates.iter().position(|t| t.label == *l).unwrap()).collect();
            let name = format!("c07:{role:?}:{f:?}");
            let mut case = build_case(&name, SpecId::CANCUN, &db, &templates, &seq).unwrap();
            case.env.beneficiary = beneficiary_of(role);
            match tier {
                Tier::Quick => {
                    v.push(super::c02::commit_job("c07-history", &case, &RunCfg::parallel(2), COARSE, 2, true));
                    v.push(super::c02::commit_job("c07-history", &case, &RunCfg::parallel(2), FINE, 1, false));
                }
                Tier::Thorough => {
                    v.push(super::c02::commit_job("c07-history", &case, &RunCfg::parallel(2), COARSE, 3, true));
                    v.push(super::c02::commit_job("c07-history", &case, &RunCfg::parallel(3), COARSE, 2, true));
                    v.push(super::c02::commit_job("c07-history", &case, &RunCfg::parallel(2), FINE, 2, true));
                }
            }
        }
    }
    v
}
