//! C06 — results do not depend on worker count, thresholds, sequential mode or timing.
//!
//! A relation between runs: for each block and delegated-account policy, every member of the
//! configuration set {workers 1..3} x {min_parallel_txs 0, n, n+1} x {execute,
//! parallel_execute(Some(k)), fallback_sequential} - the parallel members under every schedule
//! within the bound - must yield the observation of the set's canonical member (forced
//! sequential). With the policies off the observation must also equal stock revm; with policies on
//! there is no external reference, the relation is the oracle (C12/C13 supply expected outcomes).

use super::*;
use crate::case::{run_grevm, Entry, Observation};
use crate::families::{c12, c13, general, sweep};
use grevm::DelegatedSafetyConfig;
use revm_primitives::hardfork::SpecId;

pub fn config_set(n: usize) -> Vec<RunCfg> {
    let mut v = Vec::new();
    for w in 1..=3 {
        v.push(RunCfg::parallel(w));
    }
    let mut at = RunCfg::parallel(2);
    at.min_parallel_txs = n; // block_size < n is false: still parallel
    v.push(at);
    let mut below = RunCfg::parallel(2);
    below.min_parallel_txs = n + 1; // sequential by threshold
    v.push(below);
    let mut pe = RunCfg::parallel(1);
    pe.entry = Entry::ParallelExecute(2);
    v.push(pe);
    let mut fb = RunCfg::parallel(2);
    fb.entry = Entry::FallbackSequential;
    v.push(fb);
    v
}

pub fn relation_jobs(family: &'static str, case: &Case, safety: DelegatedSafetyConfig, also_stock: bool, bound: usize, v: &mut Vec<Job>) {
    let canonical: Arc<OnceLock<Observation>> = Arc::new(OnceLock::new());
    let stock: Arc<OnceLock<Expected>> = Arc::new(OnceLock::new());
    for mut run in config_set(case.txs.len()) {
        run.safety = safety;
        let parallel = !run.force_sequential && run.entry != Entry::FallbackSequential && case.txs.len() >= run.min_parallel_txs;
        let mut job = pipeline_job(family, case, &run, COARSE, if parallel { bound } else { 0 }, false);
        let (canonical, stock) = (canonical.clone(), stock.clone());
        let case = case.clone();
        let canon_run = {
            let mut r = RunCfg::sequential();
            r.safety = safety;
            r
        };
        job.judge = Arc::new(move |res: &ExecResult| {
            let obs = res.obs.as_ref().expect("observation");
            let c = canonical.get_or_init(|| run_grevm(&case, &canon_run).0);
            if !obs.same_as(c) {
                return Judgement::Violation {
                    key: "config-dependence".into(),
                    detail: format!("differs from the forced-sequential run of the same block and policy: {}", obs.diff(c)),
                };
            }
            if also_stock {
                let s = stock.get_or_init(|| reference(&case, None));
                if !obs.same_as(&s.obs) {
                    return Judgement::Violation { key: "mismatch".into(), detail: obs.diff(&s.obs) };
                }
            }
            Judgement::Ok
        });
        v.push(job);
    }
}

pub fn jobs(tier: Tier) -> Vec<Job> {
    let mut v = Vec::new();
    let off = DelegatedSafetyConfig::disabled();
    // (1) the general alphabet, policies off
    let db = general::std_world();
    let templates = general::templates();
    let (max_len, specs): (usize, &[SpecId]) = match tier {
        Tier::Quick => (3, &[SpecId::CANCUN, SpecId::PRAGUE]),
        Tier::Thorough => (3, &[SpecId::BERLIN, SpecId::CANCUN, SpecId::PRAGUE]),
    };
    for seq in sweep::sequences(templates.len(), max_len) {
        if seq.len() >= 2 && !sweep::shares_tag(&templates, &seq) {
            continue;
        }
        if seq.len() == 3 && !(sweep::shares_tag(&templates, &seq[0..2]) && sweep::shares_tag(&templates, &seq[1..3])) {
            continue;
        }
        for &spec in specs {
            if tier == Tier::Quick && seq.len() == 3 && (spec != SpecId::PRAGUE || (seq[0] * 5 + seq[1] * 3 + seq[2]) % 4 != 0) {
                continue; // quick: a quarter of the length-3 blocks, on one spec
            }
            let Some(case) = sweep::build_case("c06", spec, &db, &templates, &seq) else { continue };
            relation_jobs("c06-config", &case, off, true, 1, &mut v);
        }
    }
    // (2) policy-enabled blocks: the four policy combinations
    let policies = [
        DelegatedSafetyConfig::disabled(),
        DelegatedSafetyConfig::create_only(),
        DelegatedSafetyConfig::reserve_only(),
        DelegatedSafetyConfig::enabled(),
    ];
    for spec in [SpecId::PRAGUE, SpecId::OSAKA] {
        if tier == Tier::Quick && spec == SpecId::OSAKA {
            continue;
        }
        for prog in c12::programs() {
            if !spec.is_enabled_in(prog.min_spec) {
                continue;
            }
            let case = Case::new(format!("c06:c12:{}:{}", prog.name, crate::world::spec_name(spec)), spec, c12::world(true, false), prog.txs.clone());
            for p in policies {
                relation_jobs("c06-policy", &case, p, p == off, 1, &mut v);
            }
        }
        for b in c13::blocks(spec) {
            if tier == Tier::Quick && !(b.case.name.contains(":k1") || b.case.name.contains(":k2")) {
                continue;
            }
            let mut case = b.case.clone();
            case.name = format!("c06:{}", case.name);
            for p in policies {
                relation_jobs("c06-policy", &case, p, p == off, 1, &mut v);
            }
        }
    }
    v
}
