//! sched-mc: bounded exhaustive exploration of the real grevm scheduler under a controlled
//! scheduler (see /verif/DESIGN.md).
//!
//!   sched-mc run --prop C01 --tier quick --part 0/16 --out results.json [--budget-s 50] [--only-job ID]
//!   sched-mc replay <replay.json>
//!   sched-mc list --prop C01 --tier quick

#![allow(dead_code)]

mod case;
mod explorer;
mod families;
mod job;
mod world;

use job::{run_job, KnownFindings};
use serde_json::{json, Value};
use std::cell::RefCell;
use std::time::{Duration, Instant};

#[derive(Clone, Copy, PartialEq, Eq, Debug)]
pub enum Tier {
    Quick,
    Thorough,
}

thread_local! {
    static RESULTS: RefCell<Option<(String, Value)>> = const { RefCell::new(None) };
}

fn flush_results() {
    RESULTS.with(|r| {
        if let Some((path, v)) = r.borrow().as_ref() {
            let tmp = format!("{path}.tmp");
            std::fs::write(&tmp, serde_json::to_vec(v).unwrap()).expect("write results");
            std::fs::rename(&tmp, path).expect("rename results");
        }
    });
}

fn tune_allocator() {
    // glibc trims the heap (madvise) after every execution otherwise, which serialises the 16
    // explorer processes in the kernel (DESIGN.md §3.7).
    unsafe {
        libc::mallopt(libc::M_TRIM_THRESHOLD, i32::MAX);
        libc::mallopt(libc::M_TOP_PAD, 64 << 20);
        libc::mallopt(libc::M_MMAP_THRESHOLD, 1 << 30);
    }
}

fn arg<'a>(args: &'a [String], name: &str) -> Option<&'a str> {
    args.iter().position(|a| a == name).and_then(|i| args.get(i + 1)).map(|s| s.as_str())
}

fn main() {
    tune_allocator();
    // a one-thread rayon pool on this very thread: parallel_take_bundle runs inline
    let _ = rayon::ThreadPoolBuilder::new().num_threads(1).use_current_thread().build_global();
    // quiet panic hook: panics inside executions are observations, not output
    std::panic::set_hook(Box::new(|info| {
        if std::env::var_os("VERIF_PANIC_TRACE").is_some() {
            eprintln!("panic: {info}");
        }
    }));
    job::set_hang_recorder(record_hang_violation);
    let args: Vec<String> = std::env::args().collect();
    let cmd = args.get(1).map(|s| s.as_str()).unwrap_or("");
    let code = explorer::with_pool(|| match cmd {
        "run" => cmd_run(&args),
        "replay" => cmd_replay(&args),
        "list" => cmd_list(&args),
        "selftest" => cmd_selftest(),
        "show" => cmd_show(&args),
        "trace" => {
            job::PRINT_STEPS.with(|p| p.set(true));
            cmd_trace(&args)
        }
        _ => {
            eprintln!("usage: sched-mc run|replay|list ...");
            2
        }
    });
    std::process::exit(code);
}

fn parse_tier(s: Option<&str>) -> Tier {
    match s {
        Some("thorough") => Tier::Thorough,
        _ => Tier::Quick,
    }
}

fn cmd_list(args: &[String]) -> i32 {
    let prop = arg(args, "--prop").expect("--prop");
    let tier = parse_tier(arg(args, "--tier"));
    let jobs = families::jobs(prop, tier);
    for (i, j) in jobs.iter().enumerate() {
        println!("{i}\t{}\t{}\td={}\tsplit={}\t{}", j.family, j.gran.name(), j.bound, j.split, j.id);
    }
    println!("{} jobs", jobs.len());
    0
}

/// Determinism self-test: for one job of every family of every property, explore with bound 1
/// twice and require identical statistics and identical sets of event-trace digests. (Every child
/// execution additionally checks its replayed prefix against its parent, always.)
fn cmd_selftest() -> i32 {
    let known = KnownFindings { keys: vec![] };
    let mut n = 0;
    for prop in families::PROPS {
        let jobs = families::jobs(prop, Tier::Quick);
        let mut seen = std::collections::BTreeSet::new();
        for job in jobs.iter() {
            if !seen.insert(job.family) {
                continue;
            }
            let mut j = job.clone();
            j.bound = j.bound.min(1);
            let mut sig = Vec::new();
            for _ in 0..2 {
                let r = if let Some(seq) = &j.seq {
                    Ok(job::run_seq_job(prop, &j, seq, (0, 1), None, &known, Some(&json!({"selftest": true}))))
                } else {
                    run_job(prop, &j, (0, 1), None, None, None, &known)
                };
                match r {
                    Ok(r) => sig.push((r.value["executions"].clone(), r.value["trace_digests"].clone(), r.value["root_steps"].clone(), r.violation.map(|v| v["detail"].clone()))),
                    Err(e) => {
                        eprintln!("MACHINERY-ERROR: selftest {}: {e}", j.id);
                        return 2;
                    }
                }
            }
            if sig[0] != sig[1] {
                eprintln!("MACHINERY-ERROR: selftest: job {} is not deterministic", j.id);
                return 2;
            }
            n += 1;
        }
    }
    println!("selftest: {n} driver families replay deterministically");
    0
}

pub fn point_name(id: u32) -> &'static str {
    use grevm_verif_rt::pt::*;
    match id {
        0 => "(runtime)",
        ATOMIC_LOAD => "atomic.load",
        ATOMIC_STORE => "atomic.store",
        ATOMIC_RMW => "atomic.rmw",
        MUTEX_LOCK => "mutex.lock",
        RWLOCK_READ => "rwlock.read",
        RWLOCK_WRITE => "rwlock.write",
        ONCE => "once",
        UNPARK => "unpark",
        SPAWN => "spawn",
        JOIN => "join",
        THREAD_EXIT => "thread.exit",
        YIELD => "YIELD",
        PARK => "PARK",
        BLOCK_LOCK => "BLOCK(lock)",
        BLOCK_JOIN => "BLOCK(join)",
        BLOCK_SCOPE => "BLOCK(scope)",
        WORKER_NEXT => "worker.next",
        VALIDATION_CLAIMED => "validation.claimed",
        EXECUTION_CLAIMED => "execution.claimed",
        EXEC_BEGIN => "exec.begin",
        EXEC_DONE => "exec.done",
        MV_READ => "mv.read",
        MV_PUBLISH => "mv.publish",
        HISTORY_RECORD => "history.record",
        DEP_UPDATE => "dep.update",
        EXEC_STATUS => "exec.status",
        REWIND => "rewind",
        VALIDATE_TS => "validate.ts",
        VALIDATE_PROBE => "validate.probe",
        VALIDATE_VERDICT => "validate.verdict",
        FINALITY_READ => "finality.read",
        FINALITY_PUBLISH => "finality.publish",
        FINALITY_NOTIFY => "finality.notify",
        COMMIT_TAKE => "commit.take",
        COMMIT_PUBLISH => "commit.publish",
        COMMIT_RELEASE => "commit.release",
        ABORT => "abort",
        RUN_ONCE => "run_once",
        DB_FILL_STORAGE => "dbfill.storage",
        DB_FILL_BASIC => "dbfill.basic",
        DB_FILL_CODE => "dbfill.code",
        COMMIT_APPLY => "commit.apply",
        FINALITY_LOCK => "finality.lock",
        VALIDATE_NOTIFY => "validate.notify",
        ERROR_HEAD_CHECK => "error.headcheck",
        CACHE_CLEAR => "cache.clear",
        REWIND_DONE => "rewind.done",
        EXECUTED_DONE => "executed.done",
        HARNESS_DB => "harness.db",
        HARNESS_PRECOMPILE => "harness.precompile",
        HARNESS_ENTRY => "harness.entry",
        HARNESS_OP => "harness.op",
        _ => "?",
    }
}

/// sched-mc trace --prop P --tier T --job ID --devs "s:r,s:r"
fn cmd_trace(args: &[String]) -> i32 {
    let prop = arg(args, "--prop").expect("--prop");
    let tier = parse_tier(arg(args, "--tier"));
    let id = arg(args, "--job").expect("--job");
    let devs: Vec<explorer::Dev> = arg(args, "--devs")
        .unwrap_or("")
        .split(',')
        .filter(|s| !s.is_empty())
        .map(|p| {
            let (a, b) = p.split_once(':').expect("s:r");
            (a.parse().unwrap(), b.parse().unwrap())
        })
        .collect();
    let jobs = families::jobs(prop, tier);
    let Some(job) = jobs.iter().find(|j| j.id == id) else {
        eprintln!("no such job");
        return 2;
    };
    let known = KnownFindings { keys: vec![] };
    match run_job(prop, job, (0, 1), None, None, Some(devs), &known) {
        Ok(r) => {
            println!("violation: {}", r.violation.map_or("none".to_string(), |v| v["detail"].to_string()));
            0
        }
        Err(e) => {
            eprintln!("MACHINERY-ERROR: {e}");
            2
        }
    }
}

fn cmd_show(args: &[String]) -> i32 {
    let prop = arg(args, "--prop").expect("--prop");
    let tier = parse_tier(arg(args, "--tier"));
    let pat = arg(args, "--job").unwrap_or("");
    for j in families::jobs(prop, tier) {
        if j.id.contains(pat) {
            println!("== {}", j.id);
            if let Some(show) = &j.show {
                println!("{}", show());
            }
        }
    }
    0
}

fn cmd_run(args: &[String]) -> i32 {
    let prop = arg(args, "--prop").expect("--prop").to_string();
    let tier = parse_tier(arg(args, "--tier"));
    let part: (usize, usize) = arg(args, "--part")
        .map(|s| {
            let (a, b) = s.split_once('/').expect("i/n");
            (a.parse().unwrap(), b.parse().unwrap())
        })
        .unwrap_or((0, 1));
    let out = arg(args, "--out").expect("--out").to_string();
    let budget = arg(args, "--budget-s").map(|s| Duration::from_secs_f64(s.parse().unwrap()));
    let only_job = arg(args, "--only-job");
    let only_match = arg(args, "--match");
    let known_path = arg(args, "--known").unwrap_or("/verif/known_findings.txt");
    let known = KnownFindings::load(known_path);
    let started = Instant::now();
    let deadline = budget.map(|b| started + b);

    let mut jobs = families::jobs(&prop, tier);
    // cheap, wide jobs first and the deepest bounds last, so that a budget cap (reported in the
    // evidence) can only cut the deepest explorations, never a whole family (stable sort)
    jobs.sort_by_key(|j| if j.seq.is_some() || j.bound >= 64 { 0 } else { j.bound });
    let total_jobs = jobs.len();
    RESULTS.with(|r| {
        *r.borrow_mut() = Some((
            out.clone(),
            json!({"property": prop, "part": [part.0, part.1], "jobs": [], "violation": null,
                   "known": [], "total_jobs": total_jobs, "skipped_jobs": [], "machinery_error": null}),
        ))
    });
    explorer::set_abandon_handler(Box::new(|err| {
        RESULTS.with(|r| {
            if let Some((_, v)) = r.borrow_mut().as_mut() {
                if let Some(e) = err {
                    v["machinery_error"] = json!(e);
                }
            }
        });
        flush_results();
    }));

    let mut exit = 0;
    let mut split_ordinal = 0usize;
    for (idx, job) in jobs.iter().enumerate() {
        if let Some(f) = only_job {
            if job.id != f {
                continue;
            }
        }
        if let Some(m) = only_match {
            if !job.id.contains(m) {
                continue;
            }
        }
        // claim regions: region 0 holds one entry per whole (non-split) job, region k >= 1 the
        // split-depth children of the k-th split job (same numbering in every process)
        let mut region = None;
        let jpart = if job.split {
            split_ordinal += 1;
            region = Some(split_ordinal);
            part
        } else {
            let mine = match if part.1 > 1 { explorer::claims::try_claim(0, idx) } else { None } {
                Some(won) => won,
                None => {
                    // static fallback: spread whole jobs over the processes by a hash of the id
                    let h = job.id.bytes().fold(0xcbf29ce484222325u64, |h, b| (h ^ b as u64).wrapping_mul(0x100000001b3));
                    (h >> 7) as usize % part.1 == part.0
                }
            };
            if !mine {
                continue;
            }
            (0, 1)
        };
        if deadline.is_some_and(|d| Instant::now() > d) {
            RESULTS.with(|r| {
                if let Some((_, v)) = r.borrow_mut().as_mut() {
                    v["skipped_jobs"].as_array_mut().unwrap().push(json!(job.id));
                }
            });
            continue;
        }
        // the violation (if any) must be visible to the abandon handler before a hang is reported:
        // run_job reports through the same RESULTS cell via the closure below
        let report = run_job_recording(&prop, job, jpart, region, deadline, None, &known);
        match report {
            Err(e) => {
                eprintln!("MACHINERY-ERROR: job {}: {e}", job.id);
                RESULTS.with(|r| {
                    if let Some((_, v)) = r.borrow_mut().as_mut() {
                        v["machinery_error"] = json!(format!("job {}: {e}", job.id));
                    }
                });
                flush_results();
                return 2;
            }
            Ok(has_violation) => {
                if has_violation {
                    exit = 1;
                    break;
                }
            }
        }
    }
    RESULTS.with(|r| {
        if let Some((_, v)) = r.borrow_mut().as_mut() {
            v["wall_s"] = json!(started.elapsed().as_secs_f64());
        }
    });
    flush_results();
    exit
}

/// Runs the job and records its report into RESULTS. The exploration callback cannot reach RESULTS
/// before `run_job` returns, except when the process is abandoned on a hang: for that case the
/// violation is written by `HANG_SLOT`.
fn run_job_recording(
    prop: &str,
    job: &job::Job,
    part: (usize, usize),
    region: Option<usize>,
    deadline: Option<Instant>,
    only: Option<Vec<explorer::Dev>>,
    known: &KnownFindings,
) -> Result<bool, String> {
    let report = run_job(prop, job, part, region, deadline, only, known)?;
    let has_violation = report.violation.is_some();
    RESULTS.with(|r| {
        if let Some((_, v)) = r.borrow_mut().as_mut() {
            v["jobs"].as_array_mut().unwrap().push(report.value);
            for k in report.known {
                v["known"].as_array_mut().unwrap().push(k);
            }
            if let Some(viol) = report.violation {
                v["violation"] = viol;
            }
        }
    });
    Ok(has_violation)
}

pub fn record_hang_violation(v: Value) {
    RESULTS.with(|r| {
        if let Some((_, res)) = r.borrow_mut().as_mut() {
            res["violation"] = v;
        }
    });
}

fn cmd_replay(args: &[String]) -> i32 {
    let path = args.get(2).expect("replay file");
    let v: Value = serde_json::from_slice(&std::fs::read(path).expect("read replay")).expect("json");
    let prop = v["property"].as_str().expect("property").to_string();
    let tier = parse_tier(v["tier"].as_str());
    let job_id = v["job"].as_str().expect("job");
    let devs: Vec<explorer::Dev> = v["deviations"]
        .as_array()
        .expect("deviations")
        .iter()
        .map(|d| (d[0].as_u64().unwrap() as u32, d[1].as_u64().unwrap() as u16))
        .collect();
    let jobs = families::jobs(&prop, tier);
    let Some(job) = jobs.iter().find(|j| j.id == job_id) else {
        eprintln!("MACHINERY-ERROR: job {job_id} not found in {prop}/{tier:?}");
        return 2;
    };
    let out = arg(args, "--out").map(|s| s.to_string());
    RESULTS.with(|r| {
        *r.borrow_mut() = out.map(|o| (o, json!({"property": prop, "jobs": [], "violation": null, "known": [], "machinery_error": null})))
    });
    explorer::set_abandon_handler(Box::new(|err| {
        RESULTS.with(|r| {
            if let Some((_, v)) = r.borrow_mut().as_mut() {
                if let Some(e) = err {
                    v["machinery_error"] = json!(e);
                }
            }
        });
        flush_results();
    }));
    let known = KnownFindings { keys: vec![] };
    let result = if let Some(seq) = &job.seq {
        Ok(job::run_seq_job(&prop, job, seq, (0, 1), None, &known, Some(&v["seq_witness"])))
    } else {
        run_job(&prop, job, (0, 1), None, None, Some(devs), &known)
    };
    match result {
        Err(e) => {
            eprintln!("MACHINERY-ERROR: {e}");
            2
        }
        Ok(report) => {
            let code = if let Some(viol) = &report.violation {
                println!("REPRODUCED key={} detail={}", viol["key"].as_str().unwrap_or(""), viol["detail"].as_str().unwrap_or(""));
                1
            } else {
                println!("NOT-REPRODUCED");
                0
            };
            RESULTS.with(|r| {
                if let Some((_, v)) = r.borrow_mut().as_mut() {
                    v["jobs"].as_array_mut().unwrap().push(report.value.clone());
                    if let Some(viol) = report.violation.clone() {
                        v["violation"] = viol;
                    }
                }
            });
            flush_results();
            code
        }
    }
}
