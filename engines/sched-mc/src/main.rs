fn main() { println!("sched-mc"); }
