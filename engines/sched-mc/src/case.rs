//! A case = (pre-state, environment, transactions, precompiles); the in-order stock-revm reference
//! (DESIGN.md §3.5); the harness that runs grevm on a case; observations and their comparison.

use crate::world::*;
use alloy_evm::precompiles::PrecompilesMap;
use grevm::{
    DelegatedSafetyConfig, DynParallelPrecompile, GrevmConfig, ParallelState, ParallelTakeBundle,
    Scheduler, TxExecutionOutcome,
};
use grevm_verif_rt as rt;
use revm::{
    precompile::{PrecompileSpecId, Precompiles},
    Context, DatabaseCommit, DatabaseRef, ExecuteEvm, MainBuilder, MainContext,
};
use revm_context::{
    result::{EVMError, ExecutionResult},
    BlockEnv, CfgEnv, TxEnv,
};
use revm_database::{states::bundle_state::BundleRetention, BundleState, StateBuilder};
use revm_inspector::NoOpInspector;
use revm_primitives::{hardfork::SpecId, Address, B256, U256};
use revm_state::EvmState;
use std::cell::RefCell;
use std::collections::BTreeMap;
use std::panic::{catch_unwind, AssertUnwindSafe};
use std::sync::Arc;

pub type Precompiles_ = Arc<Vec<(Address, DynParallelPrecompile)>>;

#[derive(Clone)]
pub struct Case {
    pub name: String,
    pub spec: SpecId,
    pub disable_nonce_check: bool,
    pub env: BlockEnv,
    pub db: Arc<MemDb>,
    pub txs: Arc<Vec<TxEnv>>,
    pub tx_labels: Vec<String>,
    pub precompiles: Option<Precompiles_>,
}

impl Case {
    pub fn new(name: impl Into<String>, spec: SpecId, db: MemDb, txs: Vec<(String, TxEnv)>) -> Self {
        let (tx_labels, txs): (Vec<_>, Vec<_>) = txs.into_iter().unzip();
        Self {
            name: name.into(),
            spec,
            disable_nonce_check: false,
            env: block_env(spec),
            db: Arc::new(db),
            txs: Arc::new(txs),
            tx_labels,
            precompiles: None,
        }
    }
    pub fn cfg(&self) -> CfgEnv {
        cfg_env(self.spec, self.disable_nonce_check)
    }
    pub fn describe(&self) -> serde_json::Value {
        serde_json::json!({
            "case": self.name,
            "spec": spec_name(self.spec),
            "disable_nonce_check": self.disable_nonce_check,
            "txs": self.tx_labels,
        })
    }
}

#[derive(Clone, Copy, Debug, PartialEq, Eq)]
pub enum Entry {
    Execute,
    ParallelExecute(usize),
    FallbackSequential,
}

#[derive(Clone, Debug)]
pub struct RunCfg {
    pub workers: usize,
    pub min_parallel_txs: usize,
    pub force_sequential: bool,
    pub entry: Entry,
    pub safety: DelegatedSafetyConfig,
    pub fault: Option<FaultPlan>,
    pub slow_db: bool,
    pub collect_commits: bool,
}

impl RunCfg {
    pub fn parallel(workers: usize) -> Self {
        Self {
            workers,
            min_parallel_txs: 0,
            force_sequential: false,
            entry: Entry::Execute,
            safety: DelegatedSafetyConfig::disabled(),
            fault: None,
            slow_db: false,
            collect_commits: false,
        }
    }
    pub fn sequential() -> Self {
        Self { force_sequential: true, ..Self::parallel(1) }
    }
    pub fn label(&self) -> String {
        let mut s = if self.force_sequential {
            "seq".to_string()
        } else {
            format!("W{}", self.workers)
        };
        if self.min_parallel_txs != 0 {
            s += &format!(",min{}", self.min_parallel_txs);
        }
        match self.entry {
            Entry::Execute => {}
            Entry::ParallelExecute(k) => s += &format!(",pe{k}"),
            Entry::FallbackSequential => s += ",fallback",
        }
        if self.safety.forbid_delegated_create {
            s += ",guard";
        }
        if self.safety.reserve_delegated_balance {
            s += ",reserve";
        }
        if let Some(f) = &self.fault {
            s += &format!(",fault[{}:{:?}]", f.key.as_ref().map_or("-".into(), |k| k.label()), f.mode);
        }
        if self.slow_db {
            s += ",slowdb";
        }
        s
    }
    pub fn grevm_config(&self) -> GrevmConfig {
        GrevmConfig {
            concurrency_level: self.workers,
            force_sequential: self.force_sequential,
            min_parallel_txs: self.min_parallel_txs,
            delegated_safety: self.safety,
        }
    }
}

// ------------------------------------------------------------------------------------------------
// observations
// ------------------------------------------------------------------------------------------------

#[derive(Clone, Debug)]
pub struct Observation {
    /// `Err((txid, Debug of EVMError))`
    pub error: Option<(usize, String)>,
    pub outcomes: Vec<TxExecutionOutcome>,
    pub bundle: BundleState,
    pub panic: Option<String>,
    /// what the returned state serves through its database interface afterwards (`read_back`);
    /// `None` when not collected (fault plans, panics)
    pub reads: Option<Reads>,
}

/// Values served by a state's database interface over the case's universe: per address the
/// account fields and the listed slots.
pub type Reads = Vec<(Address, Option<(U256, u64, B256)>, Vec<(U256, U256)>)>;

/// The universe of a read-back: every pre-state account and every account of the produced bundle;
/// per account the pre-state slots, the bundle's slots and slots 0 and 1.
fn read_back_universe(pre: &MemDb, bundle: &BundleState) -> Vec<(Address, Vec<U256>)> {
    let mut u: BTreeMap<Address, std::collections::BTreeSet<U256>> = BTreeMap::new();
    for (a, d) in &pre.accounts {
        u.entry(*a).or_default().extend(d.storage.keys().copied());
    }
    for (a, acc) in &bundle.state {
        u.entry(*a).or_default().extend(acc.storage.keys().copied());
    }
    u.into_iter()
        .map(|(a, mut s)| {
            s.insert(U256::ZERO);
            s.insert(U256::from(1u64));
            (a, s.into_iter().collect())
        })
        .collect()
}

/// Read the universe through the `DatabaseRef` interface (grevm's `ParallelState`).
pub fn read_back<DB: DatabaseRef>(db: &DB, pre: &MemDb, bundle: &BundleState) -> Option<Reads> {
    let mut out = Vec::new();
    for (a, slots) in read_back_universe(pre, bundle) {
        let info = db.basic_ref(a).ok()?.map(|i| (i.balance, i.nonce, i.code_hash));
        let mut vs = Vec::with_capacity(slots.len());
        for s in slots {
            vs.push((s, db.storage_ref(a, s).ok()?));
        }
        out.push((a, info, vs));
    }
    Some(out)
}

/// The same through the `Database` (`&mut`) interface, which is what the EVM uses on revm's
/// `State` (see `read_universe_mut`).
pub fn read_back_mut<DB: revm::Database>(db: &mut DB, pre: &MemDb, bundle: &BundleState) -> Option<Reads> {
    let mut out = Vec::new();
    for (a, slots) in read_back_universe(pre, bundle) {
        let info = db.basic(a).ok()?.map(|i| (i.balance, i.nonce, i.code_hash));
        let mut vs = Vec::with_capacity(slots.len());
        for s in slots {
            vs.push((s, db.storage(a, s).ok()?));
        }
        out.push((a, info, vs));
    }
    Some(out)
}

pub fn normalize_bundle(mut b: BundleState) -> BundleState {
    for block in b.reverts.iter_mut() {
        block.sort_by_key(|(a, _)| *a);
    }
    b
}

impl Observation {
    pub fn same_as(&self, other: &Observation) -> bool {
        self.panic == other.panic &&
            self.error == other.error &&
            self.outcomes == other.outcomes &&
            self.bundle == other.bundle &&
            (self.reads.is_none() || other.reads.is_none() || self.reads == other.reads)
    }

    /// First difference, for the report.
    pub fn diff(&self, expected: &Observation) -> String {
        if self.panic != expected.panic {
            return format!("panic: got {:?}, expected {:?}", self.panic, expected.panic);
        }
        if self.error != expected.error {
            return format!("error: got {:?}, expected {:?}", self.error, expected.error);
        }
        if self.outcomes.len() != expected.outcomes.len() {
            return format!(
                "outcome count: got {}, expected {}",
                self.outcomes.len(),
                expected.outcomes.len()
            );
        }
        for (i, (a, b)) in self.outcomes.iter().zip(&expected.outcomes).enumerate() {
            if a != b {
                return format!("outcome[{i}]: got {a:?}, expected {b:?}");
            }
        }
        let d = bundle_diff(&self.bundle, &expected.bundle);
        if d != "no difference" {
            return d;
        }
        if let (Some(g), Some(e)) = (&self.reads, &expected.reads) {
            for (x, y) in g.iter().zip(e.iter()) {
                if x != y {
                    return format!(
                        "state served after the block: account {}: the returned state serves {:?} slots {:?}, revm State serves {:?} slots {:?}",
                        short(&x.0), x.1, x.2, y.1, y.2
                    );
                }
            }
            if g.len() != e.len() {
                return format!("state served after the block: {} accounts read, expected {}", g.len(), e.len());
            }
        }
        d
    }
}

/// Stable rendering of a bundle account (the Debug output of code bodies differs between
/// processes, and the replay discipline compares diff texts).
pub fn fmt_bundle_account(a: &revm_database::BundleAccount) -> String {
    let info = |i: &Option<revm_state::AccountInfo>| i.as_ref().map(|i| format!("(balance {}, nonce {}, code_hash {:?})", i.balance, i.nonce, i.code_hash));
    let st: BTreeMap<_, _> = a.storage.iter().map(|(k, v)| (*k, (v.previous_or_original_value, v.present_value))).collect();
    format!("{{info: {:?}, original: {:?}, status: {:?}, storage (orig,present): {:?}}}", info(&a.info), info(&a.original_info), a.status, st)
}

pub fn bundle_diff(got: &BundleState, exp: &BundleState) -> String {
    let g: BTreeMap<_, _> = got.state.iter().collect();
    let e: BTreeMap<_, _> = exp.state.iter().collect();
    for (a, ea) in &e {
        match g.get(a) {
            None => return format!("bundle: account {} missing; expected {}", short(a), fmt_bundle_account(ea)),
            Some(ga) if ga != ea => {
                return format!("bundle: account {}: got {}, expected {}", short(a), fmt_bundle_account(ga), fmt_bundle_account(ea))
            }
            _ => {}
        }
    }
    for (a, ga) in &g {
        if !e.contains_key(a) {
            return format!("bundle: unexpected account {}: {}", short(a), fmt_bundle_account(ga));
        }
    }
    if got.contracts != exp.contracts {
        let gk: Vec<_> = got.contracts.keys().collect();
        let ek: Vec<_> = exp.contracts.keys().collect();
        return format!("bundle: contracts differ: got {gk:?}, expected {ek:?}");
    }
    if got.reverts != exp.reverts {
        let render = |b: &BundleState| -> String {
            b.reverts
                .iter()
                .map(|block| {
                    block
                        .iter()
                        .map(|(a, r)| {
                            let acct = match &r.account {
                                revm_database::states::reverts::AccountInfoRevert::RevertTo(i) => {
                                    format!("RevertTo(balance {}, nonce {}, code_hash {:?})", i.balance, i.nonce, i.code_hash)
                                }
                                other => format!("{other:?}"),
                            };
                            let st: BTreeMap<_, _> = r.storage.iter().map(|(k, v)| (*k, *v)).collect();
                            format!("{}: {acct} prev={:?} wipe={} storage={st:?}", short(a), r.previous_status, r.wipe_storage)
                        })
                        .collect::<Vec<_>>()
                        .join("; ")
                })
                .collect::<Vec<_>>()
                .join(" | ")
        };
        return format!("bundle: reverts differ: got [{}], expected [{}]", render(got), render(exp));
    }
    if got.state_size != exp.state_size || got.reverts_size != exp.reverts_size {
        return format!(
            "bundle: size accounting: got ({}, {}), expected ({}, {})",
            got.state_size, got.reverts_size, exp.state_size, exp.reverts_size
        );
    }
    "no difference".to_string()
}

/// What one committed transaction changed, in a canonical comparable form (touched accounts only).
#[derive(Clone, Debug, PartialEq, Eq)]
pub struct CommitEffect {
    pub txid: usize,
    pub result: ExecutionResult,
    /// address -> (selfdestructed, created, balance, nonce, code_hash, changed slots (orig, present))
    pub accounts: BTreeMap<Address, (bool, bool, U256, u64, B256, BTreeMap<U256, (U256, U256)>)>,
}

pub fn effect_of(txid: usize, result: &ExecutionResult, state: &EvmState) -> CommitEffect {
    let mut accounts = BTreeMap::new();
    for (a, acc) in state.iter() {
        if !acc.is_touched() {
            continue;
        }
        let slots: BTreeMap<U256, (U256, U256)> = acc
            .storage
            .iter()
            .filter(|(_, s)| s.is_changed())
            .map(|(k, s)| (*k, (s.original_value(), s.present_value())))
            .collect();
        accounts.insert(
            *a,
            (
                acc.is_selfdestructed(),
                acc.is_created(),
                acc.info.balance,
                acc.info.nonce,
                acc.info.code_hash,
                slots,
            ),
        );
    }
    CommitEffect { txid, result: result.clone(), accounts }
}

// ------------------------------------------------------------------------------------------------
// reference: in-order stock revm
// ------------------------------------------------------------------------------------------------

pub struct Expected {
    pub obs: Observation,
    pub commits: Vec<CommitEffect>,
    pub keys_read: Vec<DbKey>,
}

fn map_err(e: EVMError<revm_database::bal::EvmDatabaseError<DbErr>>) -> EVMError<DbErr> {
    match e {
        EVMError::Transaction(t) => EVMError::Transaction(t),
        EVMError::Header(h) => EVMError::Header(h),
        EVMError::Database(inner) => EVMError::Database(inner.into_external_error()),
        EVMError::Custom(s) => EVMError::Custom(s),
        EVMError::CustomAny(a) => EVMError::CustomAny(a),
    }
}

/// Rendering used for error comparison. The reference runs on `revm_database::State`, whose error
/// type wraps the backing database's error in `EvmDatabaseError` (Display: "Database error: ..");
/// grevm's databases return the backing error itself. `map_err` removes the wrapper from
/// `EVMError::Database`; a precompile that reports a facade fault *stringifies* it into
/// `EVMError::Custom`, so the wrapper's prefix is removed from that text as well (both sides).
pub fn err_string(e: &EVMError<DbErr>) -> String {
    match e {
        EVMError::Custom(s) => format!("{:?}", EVMError::<DbErr>::Custom(s.replace("Database error: db fault:", "db fault:"))),
        _ => format!("{e:?}"),
    }
}

/// Run the block one transaction at a time with stock revm on `revm_database::State`, skipping
/// invalid transactions, stopping at the first other error.
pub fn reference(case: &Case, fault: Option<FaultPlan>) -> Expected {
    let db = ExecDb::new(case.db.clone(), fault, false, true);
    let spec = case.spec;
    let cfg = case.cfg();
    let disable_nonce_check = cfg.disable_nonce_check;
    let state = StateBuilder::new().with_bundle_update().with_database_ref(&db).build();
    let mut evm = Context::mainnet()
        .with_db(state)
        .with_cfg(cfg)
        .with_block(case.env.clone())
        .build_mainnet_with_inspector(NoOpInspector {})
        .with_precompiles(PrecompilesMap::from_static(Precompiles::new(
            PrecompileSpecId::from_spec_id(spec),
        )));
    if case.precompiles.is_some() {
        // the same test bodies behind the harness's own facade and adapter (families/pc.rs): the
        // reference does not go through grevm's `to_alloy`
        for (address, precompile) in crate::families::pc::all_ref().iter() {
            let precompile = precompile.clone();
            evm.precompiles.apply_precompile(address, move |_| Some(precompile));
        }
    }
    let mut outcomes = Vec::new();
    let mut commits = Vec::new();
    let mut error = None;
    // the fee recipient's account is loaded up front (property C04's wording)
    use revm::Database;
    if let Err(e) = evm.ctx.journaled_state.database.basic(case.env.beneficiary) {
        error = Some((0usize, err_string(&EVMError::Database(e.into_external_error()))));
    }
    if error.is_none() {
        for (i, tx) in case.txs.iter().enumerate() {
            if !disable_nonce_check && tx.nonce == u64::MAX {
                match evm.ctx.journaled_state.database.basic(tx.caller) {
                    Ok(info) => {
                        if info.map_or(0, |x| x.nonce) == u64::MAX {
                            outcomes.push(TxExecutionOutcome::Skipped(
                                grevm::InvalidTransaction::NonceOverflowInTransaction,
                            ));
                            continue;
                        }
                    }
                    Err(e) => {
                        error = Some((i, err_string(&EVMError::Database(e.into_external_error()))));
                        break;
                    }
                }
            }
            match evm.transact(tx.clone()) {
                Ok(ras) => {
                    commits.push(effect_of(i, &ras.result, &ras.state));
                    evm.ctx.journaled_state.database.commit(ras.state);
                    outcomes.push(TxExecutionOutcome::Executed(ras.result));
                }
                Err(EVMError::Transaction(t)) => outcomes.push(TxExecutionOutcome::Skipped(t)),
                Err(e) => {
                    error = Some((i, err_string(&map_err(e))));
                    break;
                }
            }
        }
    }
    let st = &mut evm.ctx.journaled_state.database;
    st.merge_transitions(BundleRetention::Reverts);
    let bundle = normalize_bundle(st.take_bundle());
    let keys_read = db.log.as_ref().map(|l| l.lock().unwrap().clone()).unwrap_or_default();
    let reads = if db.fault.is_none() { read_back_mut(st, &case.db, &bundle) } else { None };
    drop(evm);
    Expected { obs: Observation { error, outcomes, bundle, panic: None, reads }, commits, keys_read }
}

/// Several consecutive blocks on one revm `State` (merge after each block); returns all outcomes,
/// the accumulated bundle and the values readable afterwards over `(addrs, slots)` through the
/// `Database` interface.
pub fn reference_blocks(
    case: &Case,
    blocks: &[Arc<Vec<TxEnv>>],
    addrs: &[Address],
    slots: &[U256],
) -> (Vec<TxExecutionOutcome>, BundleState, String) {
    let db = ExecDb::new(case.db.clone(), None, false, false);
    let spec = case.spec;
    let state = StateBuilder::new().with_bundle_update().with_database_ref(&db).build();
    let mut evm = Context::mainnet()
        .with_db(state)
        .with_cfg(case.cfg())
        .with_block(case.env.clone())
        .build_mainnet_with_inspector(NoOpInspector {})
        .with_precompiles(PrecompilesMap::from_static(Precompiles::new(PrecompileSpecId::from_spec_id(spec))));
    if case.precompiles.is_some() {
        // the same test bodies behind the harness's own facade and adapter (families/pc.rs): the
        // reference does not go through grevm's `to_alloy`
        for (address, precompile) in crate::families::pc::all_ref().iter() {
            let precompile = precompile.clone();
            evm.precompiles.apply_precompile(address, move |_| Some(precompile));
        }
    }
    let mut outcomes = Vec::new();
    for block in blocks {
        for tx in block.iter() {
            match evm.transact(tx.clone()) {
                Ok(ras) => {
                    evm.ctx.journaled_state.database.commit(ras.state);
                    outcomes.push(TxExecutionOutcome::Executed(ras.result));
                }
                Err(EVMError::Transaction(t)) => outcomes.push(TxExecutionOutcome::Skipped(t)),
                Err(e) => panic!("reference_blocks: unexpected error {:?}", err_string(&map_err(e))),
            }
        }
        evm.ctx.journaled_state.database.merge_transitions(BundleRetention::Reverts);
    }
    let st = &mut evm.ctx.journaled_state.database;
    let reads = format!("{:?}", read_universe_mut(st, addrs, slots).map_err(|e| format!("{e:?}")));
    let bundle = normalize_bundle(st.take_bundle());
    (outcomes, bundle, reads)
}

// ------------------------------------------------------------------------------------------------
// running grevm
// ------------------------------------------------------------------------------------------------

/// Summary of the events one execution produced (through `rt::observe`).
#[derive(Clone, Debug, Default)]
pub struct Trace {
    pub incarnations: u32,
    pub reexecutions: u32,
    pub validation_failures: u32,
    pub conflicts: u32,
    pub aborts: Vec<usize>,
    pub commit_fallbacks: u32,
    pub seq_replay_from: Option<usize>,
    pub commits: Vec<CommitEffect>,
    pub commit_cursor_after: Vec<(usize, usize)>,
    /// order-sensitive digest of the event sequence
    pub digest: u64,
}

impl Trace {
    pub fn nontrivial(&self) -> bool {
        self.reexecutions > 0 ||
            self.validation_failures > 0 ||
            self.conflicts > 0 ||
            !self.aborts.is_empty() ||
            self.commit_fallbacks > 0
    }
}

thread_local! {
    static TRACE: RefCell<Trace> = RefCell::new(Trace::default());
}

fn mix(h: u64, v: u64) -> u64 {
    (h ^ v).wrapping_mul(0x100000001b3).rotate_left(17) ^ 0x9e3779b97f4a7c15
}

pub fn install_observer(collect_commits: bool) {
    TRACE.with(|t| *t.borrow_mut() = Trace::default());
    rt::obs::set_observer(Some(Box::new(move |ev: &rt::Event<'_>| {
        use rt::obs::kind::*;
        TRACE.with(|t| {
            let mut t = t.borrow_mut();
            t.digest = mix(mix(mix(t.digest, ev.kind as u64), ev.txid as u64), (ev.a as u64) << 1 | (ev.b as u64 & 1));
            match ev.kind {
                INCARNATION_START => {
                    t.incarnations += 1;
                    if ev.a > 1 {
                        t.reexecutions += 1;
                    }
                }
                INCARNATION_END => {
                    if ev.b != 0 {
                        t.conflicts += 1;
                    }
                }
                VALIDATION => {
                    if ev.b == 0 {
                        t.validation_failures += 1;
                    }
                }
                ABORT => t.aborts.push(ev.a),
                COMMIT_FALLBACK => t.commit_fallbacks += 1,
                SEQ_REPLAY => t.seq_replay_from = Some(ev.txid),
                COMMIT_BEGIN => {
                    if collect_commits {
                        if let Some(p) = ev.payload.and_then(|p| p.downcast_ref::<grevm::verif_export::CommitPayload>()) {
                            // SAFETY: pointers are valid during the callback (see CommitPayload)
                            let (r, s) = unsafe { (&*p.result, &*p.state) };
                            t.commits.push(effect_of(ev.txid, r, s));
                        }
                    } else {
                        t.commits.push(CommitEffect {
                            txid: ev.txid,
                            result: ExecutionResult::Halt {
                                reason: revm_context::result::HaltReason::OutOfFunds,
                                gas: Default::default(),
                                logs: vec![],
                            },
                            accounts: Default::default(),
                        });
                    }
                }
                COMMIT_END => t.commit_cursor_after.push((ev.txid, ev.a)),
                _ => {}
            }
        });
    })));
}

pub fn take_trace() -> Trace {
    rt::obs::set_observer(None);
    TRACE.with(|t| std::mem::take(&mut *t.borrow_mut()))
}

/// Run grevm on `case` under `run` (inside or outside a controlled execution) and observe the
/// public result.
pub fn run_grevm(case: &Case, run: &RunCfg) -> (Observation, Trace) {
    let (obs, trace, _) = run_grevm_stats(case, run);
    (obs, trace)
}

/// Also reports (database calls made, whether the injected database panic fired).
pub fn run_grevm_stats(case: &Case, run: &RunCfg) -> (Observation, Trace, (usize, bool)) {
    let db = Arc::new(ExecDb::new(case.db.clone(), run.fault.clone(), run.slow_db, false));
    install_observer(run.collect_commits);
    let obs = run_grevm_on(case, run, db.clone());
    (obs, take_trace(), (db.calls(), db.panicked()))
}

pub fn run_grevm_on(case: &Case, run: &RunCfg, db: Arc<ExecDb>) -> Observation {
    let state = ParallelState::new(db, true, false);
    let scheduler = Scheduler::new_with_runtime_config(
        case.cfg(),
        case.env.clone(),
        case.txs.clone(),
        state,
        case.precompiles.clone(),
        run.grevm_config(),
    );
    let entry = run.entry;
    let result = catch_unwind(AssertUnwindSafe(|| match entry {
        Entry::Execute => scheduler.execute(),
        Entry::ParallelExecute(k) => scheduler.parallel_execute(Some(k)),
        Entry::FallbackSequential => scheduler.fallback_sequential(),
    }));
    let mut obs = finish_with(scheduler, result, if run.fault.is_none() { Some(&case.db) } else { None });
    if run.fault.is_some() {
        obs.reads = None;
    }
    obs
}

pub fn finish(
    scheduler: Scheduler<Arc<ExecDb>>,
    result: std::thread::Result<Result<(), grevm::GrevmError<DbErr>>>,
) -> Observation {
    finish_with(scheduler, result, None)
}

/// `pre`: when given, the returned state is read back over the case's universe afterwards.
pub fn finish_with(
    scheduler: Scheduler<Arc<ExecDb>>,
    result: std::thread::Result<Result<(), grevm::GrevmError<DbErr>>>,
    pre: Option<&MemDb>,
) -> Observation {
    match result {
        Err(payload) => Observation {
            error: None,
            outcomes: vec![],
            bundle: BundleState::default(),
            panic: Some(crate::explorer::payload_to_string(&payload)),
            reads: None,
        },
        Ok(res) => {
            let error = res.err().map(|e| (e.txid, err_string(&e.error)));
            let taken = catch_unwind(AssertUnwindSafe(|| {
                let (outcomes, mut state) = scheduler.take_result_and_state();
                let bundle = normalize_bundle(state.parallel_take_bundle(BundleRetention::Reverts));
                let reads = pre.and_then(|pre| read_back(&state, pre, &bundle));
                (outcomes, bundle, reads)
            }));
            match taken {
                Ok((outcomes, bundle, reads)) => Observation { error, outcomes, bundle, panic: None, reads },
                Err(payload) => Observation {
                    error,
                    outcomes: vec![],
                    bundle: BundleState::default(),
                    panic: Some(format!(
                        "after execute: {}",
                        crate::explorer::payload_to_string(&payload)
                    )),
                    reads: None,
                },
            }
        }
    }
}

/// Read the state left after a run through the state's database interface (for C10 / C04 prefix
/// checks): value of every (address, slot) in `universe`.
pub fn read_universe<DB: DatabaseRef>(
    db: &DB,
    addrs: &[Address],
    slots: &[U256],
) -> Result<Vec<(Option<revm_state::AccountInfo>, Vec<U256>)>, DB::Error> {
    let mut out = Vec::new();
    for a in addrs {
        let info = db.basic_ref(*a)?.map(|mut i| {
            i.code = None;
            i
        });
        let mut vs = Vec::new();
        for s in slots {
            vs.push(db.storage_ref(*a, *s)?);
        }
        out.push((info, vs));
    }
    Ok(out)
}

/// The same through the `Database` (`&mut`) interface, which is what the EVM uses. revm's
/// `State::storage_ref` (the `&self` flavour) falls through to the backing database for an account
/// that was destroyed in the cache, whereas `State::storage` returns zero; the latter is the
/// reference semantics.
pub fn read_universe_mut<DB: revm::Database>(
    db: &mut DB,
    addrs: &[Address],
    slots: &[U256],
) -> Result<Vec<(Option<revm_state::AccountInfo>, Vec<U256>)>, DB::Error> {
    let mut out = Vec::new();
    for a in addrs {
        let info = db.basic(*a)?.map(|mut i| {
            i.code = None;
            i
        });
        let mut vs = Vec::new();
        for s in slots {
            vs.push(db.storage(*a, *s)?);
        }
        out.push((info, vs));
    }
    Ok(out)
}
