//! The closed world the drivers live in: deterministic in-memory database (with fault injection
//! and "slow database" schedule points), a tiny assembler, the contract kit and transaction
//! builders. All addresses are >= 0x1000 (low addresses are precompiles).

use grevm_verif_rt as rt;
use revm::DatabaseRef;
use revm_context::{BlockEnv, CfgEnv, DBErrorMarker, TxEnv};
use revm_primitives::{hardfork::SpecId, keccak256, Address, Bytes, TxKind, B256, KECCAK_EMPTY, U256};
use revm_state::{AccountInfo, Bytecode};
use std::collections::BTreeMap;
use std::fmt;
use std::sync::atomic::{AtomicU32, AtomicUsize, Ordering};
use std::sync::Arc;

// ------------------------------------------------------------------------------------------------
// addresses
// ------------------------------------------------------------------------------------------------

pub fn addr(n: u64) -> Address {
    let mut b = [0u8; 20];
    b[12..].copy_from_slice(&n.to_be_bytes());
    Address::from(b)
}

pub fn eoa(i: u64) -> Address {
    addr(0x1000 + i)
}
pub fn contract(i: u64) -> Address {
    addr(0x2000 + i)
}
pub const COINBASE_N: u64 = 0x3000;
pub fn coinbase() -> Address {
    addr(COINBASE_N)
}
pub fn fresh(i: u64) -> Address {
    addr(0x4000 + i)
}

pub fn short(a: &Address) -> String {
    let b = a.as_slice();
    let mut n: u64 = 0;
    for &x in &b[12..] {
        n = (n << 8) | x as u64;
    }
    if b[..12].iter().all(|&x| x == 0) {
        format!("0x{n:x}")
    } else {
        format!("{a:?}")
    }
}

// ------------------------------------------------------------------------------------------------
// database
// ------------------------------------------------------------------------------------------------

#[derive(Clone, Debug, PartialEq, Eq)]
pub struct DbErr(pub String);

impl fmt::Display for DbErr {
    fn fmt(&self, f: &mut fmt::Formatter<'_>) -> fmt::Result {
        write!(f, "db fault: {}", self.0)
    }
}
impl std::error::Error for DbErr {}
impl DBErrorMarker for DbErr {}

#[derive(Clone, Debug, PartialEq, Eq, PartialOrd, Ord, Hash)]
pub enum DbKey {
    Basic(Address),
    Storage(Address, U256),
    Code(B256),
    BlockHash(u64),
}

impl DbKey {
    pub fn label(&self) -> String {
        match self {
            DbKey::Basic(a) => format!("basic({})", short(a)),
            DbKey::Storage(a, s) => format!("storage({},{})", short(a), s),
            DbKey::Code(h) => format!("code({})", &format!("{h:?}")[..10]),
            DbKey::BlockHash(n) => format!("blockhash({n})"),
        }
    }
}

#[derive(Clone, Debug, Default)]
pub struct AccountData {
    pub info: AccountInfo,
    pub storage: BTreeMap<U256, U256>,
}

/// Immutable pre-state.
#[derive(Clone, Debug, Default)]
pub struct MemDb {
    pub accounts: BTreeMap<Address, AccountData>,
    pub codes: BTreeMap<B256, Bytecode>,
}

impl MemDb {
    pub fn fund(&mut self, a: Address, balance: U256, nonce: u64) {
        let e = self.accounts.entry(a).or_default();
        e.info.balance = balance;
        e.info.nonce = nonce;
    }
    pub fn deploy(&mut self, a: Address, code: Vec<u8>) {
        let bc = Bytecode::new_raw(Bytes::from(code));
        let hash = bc.hash_slow();
        self.codes.insert(hash, bc.clone());
        let e = self.accounts.entry(a).or_default();
        e.info.code_hash = hash;
        e.info.code = None;
        if e.info.nonce == 0 {
            e.info.nonce = 1;
        }
    }
    /// EIP-7702 designator pre-installed on an EOA.
    pub fn delegate(&mut self, a: Address, target: Address) {
        let bc = Bytecode::new_eip7702(target);
        let hash = bc.hash_slow();
        self.codes.insert(hash, bc);
        let e = self.accounts.entry(a).or_default();
        e.info.code_hash = hash;
        e.info.code = None;
    }
    pub fn set_storage(&mut self, a: Address, slot: u64, value: u64) {
        self.accounts.entry(a).or_default().storage.insert(U256::from(slot), U256::from(value));
    }
}

#[derive(Clone, Copy, Debug, PartialEq, Eq)]
pub enum FaultMode {
    Persistent,
    /// the first read of the key fails, later reads succeed
    Once,
    /// the n-th database call (any key) panics
    PanicAtCall(usize),
}

#[derive(Clone, Debug)]
pub struct FaultPlan {
    pub key: Option<DbKey>,
    pub mode: FaultMode,
}

/// Per-execution database handle: pre-state + fault plan + options. `DatabaseRef` is implemented
/// for `Arc<ExecDb>` by revm's blanket impls.
#[derive(Debug)]
pub struct ExecDb {
    pub base: Arc<MemDb>,
    pub fault: Option<FaultPlan>,
    fired: AtomicU32,
    calls: AtomicUsize,
    panicked: std::sync::atomic::AtomicBool,
    /// emit a protocol point inside every fetch (a "slow database")
    pub slow: bool,
    pub log: Option<std::sync::Mutex<Vec<DbKey>>>,
}

pub const INJECTED_PANIC: &str = "injected database panic";

impl ExecDb {
    pub fn new(base: Arc<MemDb>, fault: Option<FaultPlan>, slow: bool, log: bool) -> Self {
        Self {
            base,
            fault,
            fired: AtomicU32::new(0),
            calls: AtomicUsize::new(0),
            panicked: std::sync::atomic::AtomicBool::new(false),
            slow,
            log: log.then(|| std::sync::Mutex::new(Vec::new())),
        }
    }

    pub fn calls(&self) -> usize {
        self.calls.load(Ordering::Relaxed)
    }

    pub fn panicked(&self) -> bool {
        self.panicked.load(Ordering::Relaxed)
    }

    fn touch(&self, key: DbKey, point: bool) -> Result<(), DbErr> {
        let n = self.calls.fetch_add(1, Ordering::Relaxed);
        if let Some(log) = &self.log {
            log.lock().unwrap().push(key.clone());
        }
        if point && self.slow {
            rt::point(rt::pt::HARNESS_DB);
        }
        if let Some(plan) = &self.fault {
            match plan.mode {
                FaultMode::PanicAtCall(k) => {
                    if n == k {
                        self.panicked.store(true, Ordering::Relaxed);
                        panic!("{}", INJECTED_PANIC);
                    }
                }
                FaultMode::Persistent => {
                    if plan.key.as_ref() == Some(&key) {
                        return Err(DbErr(key.label()));
                    }
                }
                FaultMode::Once => {
                    if plan.key.as_ref() == Some(&key) &&
                        self.fired.fetch_add(1, Ordering::Relaxed) == 0
                    {
                        return Err(DbErr(key.label()));
                    }
                }
            }
        }
        Ok(())
    }
}

impl DatabaseRef for ExecDb {
    type Error = DbErr;

    fn basic_ref(&self, address: Address) -> Result<Option<AccountInfo>, DbErr> {
        self.touch(DbKey::Basic(address), true)?;
        Ok(self.base.accounts.get(&address).map(|a| a.info.clone()))
    }

    fn code_by_hash_ref(&self, code_hash: B256) -> Result<Bytecode, DbErr> {
        self.touch(DbKey::Code(code_hash), true)?;
        if code_hash == KECCAK_EMPTY {
            return Ok(Bytecode::default());
        }
        Ok(self.base.codes.get(&code_hash).cloned().unwrap_or_default())
    }

    fn storage_ref(&self, address: Address, index: U256) -> Result<U256, DbErr> {
        self.touch(DbKey::Storage(address, index), true)?;
        Ok(self
            .base
            .accounts
            .get(&address)
            .and_then(|a| a.storage.get(&index).copied())
            .unwrap_or(U256::ZERO))
    }

    fn block_hash_ref(&self, number: u64) -> Result<B256, DbErr> {
        // never a schedule point: grevm calls this under a DashMap shard lock
        self.touch(DbKey::BlockHash(number), false)?;
        Ok(keccak256(number.to_be_bytes()))
    }
}

// ------------------------------------------------------------------------------------------------
// assembler
// ------------------------------------------------------------------------------------------------

#[derive(Default, Clone)]
pub struct Asm {
    pub code: Vec<u8>,
    labels: BTreeMap<&'static str, usize>,
    fixups: Vec<(usize, &'static str)>,
}

#[allow(dead_code)]
pub mod op {
    pub const STOP: u8 = 0x00;
    pub const ADD: u8 = 0x01;
    pub const MUL: u8 = 0x02;
    pub const SUB: u8 = 0x03;
    pub const LT: u8 = 0x10;
    pub const GT: u8 = 0x11;
    pub const EQ: u8 = 0x14;
    pub const ISZERO: u8 = 0x15;
    pub const ADDRESS: u8 = 0x30;
    pub const BALANCE: u8 = 0x31;
    pub const CALLER: u8 = 0x33;
    pub const CALLVALUE: u8 = 0x34;
    pub const CALLDATALOAD: u8 = 0x35;
    pub const CALLDATASIZE: u8 = 0x36;
    pub const CALLDATACOPY: u8 = 0x37;
    pub const CODESIZE: u8 = 0x38;
    pub const CODECOPY: u8 = 0x39;
    pub const EXTCODESIZE: u8 = 0x3b;
    pub const EXTCODECOPY: u8 = 0x3c;
    pub const RETURNDATASIZE: u8 = 0x3d;
    pub const RETURNDATACOPY: u8 = 0x3e;
    pub const EXTCODEHASH: u8 = 0x3f;
    pub const BLOCKHASH: u8 = 0x40;
    pub const COINBASE: u8 = 0x41;
    pub const SELFBALANCE: u8 = 0x47;
    pub const POP: u8 = 0x50;
    pub const MLOAD: u8 = 0x51;
    pub const MSTORE: u8 = 0x52;
    pub const SLOAD: u8 = 0x54;
    pub const SSTORE: u8 = 0x55;
    pub const JUMP: u8 = 0x56;
    pub const JUMPI: u8 = 0x57;
    pub const GAS: u8 = 0x5a;
    pub const JUMPDEST: u8 = 0x5b;
    pub const DUP1: u8 = 0x80;
    pub const DUP2: u8 = 0x81;
    pub const DUP3: u8 = 0x82;
    pub const SWAP1: u8 = 0x90;
    pub const SWAP2: u8 = 0x91;
    pub const CREATE: u8 = 0xf0;
    pub const CALL: u8 = 0xf1;
    pub const CALLCODE: u8 = 0xf2;
    pub const RETURN: u8 = 0xf3;
    pub const DELEGATECALL: u8 = 0xf4;
    pub const CREATE2: u8 = 0xf5;
    pub const STATICCALL: u8 = 0xfa;
    pub const REVERT: u8 = 0xfd;
    pub const INVALID: u8 = 0xfe;
    pub const SELFDESTRUCT: u8 = 0xff;
}

impl Asm {
    pub fn new() -> Self {
        Self::default()
    }
    pub fn op(mut self, o: u8) -> Self {
        self.code.push(o);
        self
    }
    pub fn ops(mut self, os: &[u8]) -> Self {
        self.code.extend_from_slice(os);
        self
    }
    /// PUSHn of the minimal big-endian encoding (PUSH1 0 for zero; no PUSH0, so that every fork
    /// can run the code).
    pub fn push(mut self, v: u64) -> Self {
        let bytes = v.to_be_bytes();
        let skip = bytes.iter().take_while(|&&b| b == 0).count().min(7);
        let b = &bytes[skip..];
        self.code.push(0x5f + b.len() as u8);
        self.code.extend_from_slice(b);
        self
    }
    pub fn push_addr(mut self, a: Address) -> Self {
        self.code.push(0x73);
        self.code.extend_from_slice(a.as_slice());
        self
    }
    pub fn push_bytes(mut self, b: &[u8]) -> Self {
        assert!(!b.is_empty() && b.len() <= 32);
        self.code.push(0x5f + b.len() as u8);
        self.code.extend_from_slice(b);
        self
    }
    pub fn label(mut self, l: &'static str) -> Self {
        self.labels.insert(l, self.code.len());
        self.code.push(op::JUMPDEST);
        self
    }
    /// PUSH2 <label>
    pub fn push_label(mut self, l: &'static str) -> Self {
        self.code.push(0x61);
        self.fixups.push((self.code.len(), l));
        self.code.extend_from_slice(&[0, 0]);
        self
    }
    pub fn build(mut self) -> Vec<u8> {
        for (pos, l) in &self.fixups {
            let dest = self.labels[l] as u16;
            self.code[*pos..*pos + 2].copy_from_slice(&dest.to_be_bytes());
        }
        self.code
    }
    /// sstore(slot, <top of stack>)
    pub fn sstore_to(self, slot: u64) -> Self {
        self.push(slot).op(op::SSTORE)
    }
}

/// Init code that returns `runtime` after running `prefix` (constructor side effects).
pub fn init_code(prefix: Vec<u8>, runtime: &[u8]) -> Vec<u8> {
    // prefix ; PUSH len ; PUSH2 off ; PUSH 0 ; CODECOPY ; PUSH len ; PUSH 0 ; RETURN ; runtime
    let len = runtime.len() as u64;
    let mut a = Asm::new().ops(&prefix).push(len);
    a.code.push(0x61);
    let off_pos = a.code.len();
    a.code.extend_from_slice(&[0, 0]);
    a = a.push(0).op(op::CODECOPY).push(len).push(0).op(op::RETURN);
    let off = a.code.len() as u16;
    a.code[off_pos..off_pos + 2].copy_from_slice(&off.to_be_bytes());
    let mut code = a.code;
    code.extend_from_slice(runtime);
    code
}

// ------------------------------------------------------------------------------------------------
// contract kit
// ------------------------------------------------------------------------------------------------

pub mod kit {
    use super::*;

    /// calldata = slot(32) ++ value(32): SSTORE(slot, value)
    pub fn store() -> Vec<u8> {
        Asm::new().push(32).op(op::CALLDATALOAD).push(0).op(op::CALLDATALOAD).op(op::SSTORE).op(op::STOP).build()
    }

    /// calldata = slot(32): SSTORE(slot, SLOAD(slot)+1)
    pub fn incr() -> Vec<u8> {
        Asm::new()
            .push(0)
            .op(op::CALLDATALOAD)
            .op(op::DUP1)
            .op(op::SLOAD)
            .push(1)
            .op(op::ADD)
            .op(op::SWAP1)
            .op(op::SSTORE)
            .op(op::STOP)
            .build()
    }

    /// With calldata: SSTORE(0, calldata[0]). Without: k = SLOAD(0); SSTORE(k, SLOAD(k+1) + 1) —
    /// a data-dependent read *and* write location.
    pub fn indirect() -> Vec<u8> {
        Asm::new()
            .op(op::CALLDATASIZE)
            .push_label("set")
            .op(op::JUMPI)
            .push(0)
            .op(op::SLOAD) // k
            .op(op::DUP1)
            .push(1)
            .op(op::ADD)
            .op(op::SLOAD) // k, v
            .push(1)
            .op(op::ADD) // k, v+1
            .op(op::SWAP1)
            .op(op::SSTORE)
            .op(op::STOP)
            .label("set")
            .push(0)
            .op(op::CALLDATALOAD)
            .push(0)
            .op(op::SSTORE)
            .op(op::STOP)
            .build()
    }

    /// if SLOAD(0) == 0 { SSTORE(1, SLOAD-at-other(Z slot 9 of self) + BALANCE(z)) } else { SSTORE(1, 7) }
    /// The zero branch reads a database key (`z`'s account and own slot 9) that the non-zero branch
    /// never reads.
    pub fn gate(z: Address) -> Vec<u8> {
        Asm::new()
            .push(0)
            .op(op::SLOAD)
            .push_label("nz")
            .op(op::JUMPI)
            .push_addr(z)
            .op(op::BALANCE)
            .push(9)
            .op(op::SLOAD)
            .op(op::ADD)
            .push(1)
            .op(op::ADD)
            .push(1)
            .op(op::SSTORE)
            .op(op::STOP)
            .label("nz")
            .push(7)
            .push(1)
            .op(op::SSTORE)
            .op(op::STOP)
            .build()
    }

    /// calldata = target(32): slot0 = BALANCE(t)+1, slot1 = EXTCODESIZE(t)+1, slot2 = EXTCODEHASH(t)
    /// (+1 so that zero observations still change storage and appear in the bundle).
    pub fn probe() -> Vec<u8> {
        Asm::new()
            .push(0)
            .op(op::CALLDATALOAD)
            .op(op::DUP1)
            .op(op::BALANCE)
            .push(1)
            .op(op::ADD)
            .push(0)
            .op(op::SSTORE)
            .op(op::DUP1)
            .op(op::EXTCODESIZE)
            .push(1)
            .op(op::ADD)
            .push(1)
            .op(op::SSTORE)
            .op(op::EXTCODEHASH)
            .push(2)
            .op(op::SSTORE)
            .op(op::STOP)
            .build()
    }

    /// calldata = target(32) ++ slot(32): CALL target with calldata = slot (expects a `getter`), then
    /// stores returned word + 1 into own slot 3, and the call's success flag + 1 into slot 4.
    pub fn probe_slot() -> Vec<u8> {
        Asm::new()
            .push(32)
            .op(op::CALLDATALOAD)
            .push(0)
            .op(op::MSTORE) // mem[0..32] = slot
            .push(32) // ret len
            .push(32) // ret off
            .push(32) // args len
            .push(0) // args off
            .push(0) // value
            .push(0)
            .op(op::CALLDATALOAD) // target
            .op(op::GAS)
            .op(op::CALL)
            .push(1)
            .op(op::ADD)
            .push(4)
            .op(op::SSTORE)
            .push(32)
            .op(op::MLOAD)
            .push(1)
            .op(op::ADD)
            .push(3)
            .op(op::SSTORE)
            .op(op::STOP)
            .build()
    }

    /// Storage contract with three entry points selected by calldatasize:
    /// 0 bytes: SELFDESTRUCT(caller); 32 bytes: return SLOAD(calldata[0]); 64 bytes: SSTORE(slot, value).
    pub fn vault() -> Vec<u8> {
        Asm::new()
            .op(op::CALLDATASIZE)
            .op(op::ISZERO)
            .push_label("boom")
            .op(op::JUMPI)
            .op(op::CALLDATASIZE)
            .push(32)
            .op(op::EQ)
            .push_label("get")
            .op(op::JUMPI)
            .push(32)
            .op(op::CALLDATALOAD)
            .push(0)
            .op(op::CALLDATALOAD)
            .op(op::SSTORE)
            .op(op::STOP)
            .label("get")
            .push(0)
            .op(op::CALLDATALOAD)
            .op(op::SLOAD)
            .push(0)
            .op(op::MSTORE)
            .push(32)
            .push(0)
            .op(op::RETURN)
            .label("boom")
            .op(op::CALLER)
            .op(op::SELFDESTRUCT)
            .build()
    }

    /// Constructor: SSTORE(0, 5); SSTORE(1, CALLVALUE+1); runtime = vault.
    pub fn vault_init() -> Vec<u8> {
        let prefix =
            Asm::new().push(5).push(0).op(op::SSTORE).op(op::CALLVALUE).push(1).op(op::ADD).push(1).op(op::SSTORE).build();
        init_code(prefix, &vault())
    }

    /// Constructor that self-destructs in the same transaction (create + destroy in one tx).
    pub fn ephemeral_init() -> Vec<u8> {
        let prefix = Asm::new().push(5).push(0).op(op::SSTORE).op(op::CALLER).op(op::SELFDESTRUCT).build();
        init_code(prefix, &vault())
    }

    /// Factory: calldata = salt(32) [++ anything => use ephemeral init]. CREATE2(value=callvalue,
    /// init=`init`), stores created address + 1 into slot 0.
    pub fn factory(init: &[u8]) -> Vec<u8> {
        // copy init code from own code tail into memory
        let len = init.len() as u64;
        let mut a = Asm::new().push(len);
        a.code.push(0x61);
        let off_pos = a.code.len();
        a.code.extend_from_slice(&[0, 0]);
        a = a
            .push(0)
            .op(op::CODECOPY)
            .push(0)
            .op(op::CALLDATALOAD) // salt
            .push(len)
            .push(0)
            .op(op::CALLVALUE)
            .op(op::CREATE2)
            .push(1)
            .op(op::ADD)
            .push(0)
            .op(op::SSTORE)
            .op(op::STOP);
        let off = a.code.len() as u16;
        a.code[off_pos..off_pos + 2].copy_from_slice(&off.to_be_bytes());
        let mut code = a.code;
        code.extend_from_slice(init);
        code
    }

    /// `factory` / `factory_create` with the creating opcode replaced by `opcode` (used to build
    /// the "CREATE is an undefined instruction" comparison programs of C12).
    pub fn factory_with_opcode(init: &[u8], create2: bool, opcode: u8) -> Vec<u8> {
        let mut code = if create2 { factory(init) } else { factory_create(init) };
        let orig = if create2 { op::CREATE2 } else { op::CREATE };
        // the creating opcode is the last occurrence before the trailing init code
        let body_len = code.len() - init.len();
        let pos = code[..body_len].iter().rposition(|&b| b == orig).expect("create opcode");
        code[pos] = opcode;
        code
    }

    /// Creates an empty contract endowed with calldata[0] wei from the executing account's balance;
    /// stores created address + 1 in slot 7.
    pub fn endower() -> Vec<u8> {
        Asm::new()
            .push(0)
            .push(0)
            .push(0)
            .op(op::CALLDATALOAD)
            .op(op::CREATE)
            .push(1)
            .op(op::ADD)
            .push(7)
            .op(op::SSTORE)
            .op(op::STOP)
            .build()
    }

    /// SELFDESTRUCT(calldata[0]): sends the executing account's whole balance away.
    pub fn bomb() -> Vec<u8> {
        Asm::new().push(0).op(op::CALLDATALOAD).op(op::SELFDESTRUCT).build()
    }

    /// Same with CREATE (nonce-derived address).
    pub fn factory_create(init: &[u8]) -> Vec<u8> {
        let len = init.len() as u64;
        let mut a = Asm::new().push(len);
        a.code.push(0x61);
        let off_pos = a.code.len();
        a.code.extend_from_slice(&[0, 0]);
        a = a
            .push(0)
            .op(op::CODECOPY)
            .push(len)
            .push(0)
            .op(op::CALLVALUE)
            .op(op::CREATE)
            .push(1)
            .op(op::ADD)
            .push(0)
            .op(op::SSTORE)
            .op(op::STOP);
        let off = a.code.len() as u16;
        a.code[off_pos..off_pos + 2].copy_from_slice(&off.to_be_bytes());
        let mut code = a.code;
        code.extend_from_slice(init);
        code
    }

    #[derive(Clone, Copy, PartialEq, Eq, Debug)]
    pub enum CallKind {
        Call,
        DelegateCall,
        StaticCall,
        CallCode,
    }

    /// Relay: forwards the whole calldata to `target` (CALL with callvalue / DELEGATECALL /
    /// STATICCALL); stores success+1 in slot 5; optionally REVERTs afterwards.
    pub fn relay(target: Address, kind: CallKind, revert_after: bool, record: bool) -> Vec<u8> {
        let mut a = Asm::new()
            .op(op::CALLDATASIZE)
            .push(0)
            .push(0)
            .op(op::CALLDATACOPY)
            .push(0) // ret len
            .push(0) // ret off
            .op(op::CALLDATASIZE) // args len
            .push(0); // args off
        a = match kind {
            CallKind::Call => a.op(op::CALLVALUE).push_addr(target).op(op::GAS).op(op::CALL),
            CallKind::DelegateCall => a.push_addr(target).op(op::GAS).op(op::DELEGATECALL),
            CallKind::StaticCall => a.push_addr(target).op(op::GAS).op(op::STATICCALL),
            CallKind::CallCode => a.op(op::CALLVALUE).push_addr(target).op(op::GAS).op(op::CALLCODE),
        };
        if record {
            a = a.push(1).op(op::ADD).push(5).op(op::SSTORE);
        } else {
            a = a.op(op::POP);
        }
        if revert_after {
            a = a.push(0).push(0).op(op::REVERT);
        } else {
            a = a.op(op::STOP);
        }
        a.build()
    }

    /// Like `relay(target, Call, false, true)` but forwards exactly `gas` gas (if available).
    pub fn relay_gas(target: Address, gas: u64) -> Vec<u8> {
        Asm::new()
            .op(op::CALLDATASIZE)
            .push(0)
            .push(0)
            .op(op::CALLDATACOPY)
            .push(0)
            .push(0)
            .op(op::CALLDATASIZE)
            .push(0)
            .op(op::CALLVALUE)
            .push_addr(target)
            .push(gas)
            .op(op::CALL)
            .push(1)
            .op(op::ADD)
            .push(5)
            .op(op::SSTORE)
            .op(op::STOP)
            .build()
    }

    /// slot0 = BALANCE(COINBASE)+1; slot1 = EXTCODESIZE(COINBASE)+1
    pub fn coinbase_reader() -> Vec<u8> {
        Asm::new()
            .op(op::COINBASE)
            .op(op::BALANCE)
            .push(1)
            .op(op::ADD)
            .push(0)
            .op(op::SSTORE)
            .op(op::COINBASE)
            .op(op::EXTCODESIZE)
            .push(1)
            .op(op::ADD)
            .push(1)
            .op(op::SSTORE)
            .op(op::STOP)
            .build()
    }

    /// slot2 = EXTCODEHASH(COINBASE) (zero for an absent account, the empty hash for an existing
    /// code-less one), slot3 = BALANCE(COINBASE) + 1.
    pub fn coinbase_hash_reader() -> Vec<u8> {
        Asm::new()
            .op(op::COINBASE)
            .op(op::EXTCODEHASH)
            .push(2)
            .op(op::SSTORE)
            .op(op::COINBASE)
            .op(op::BALANCE)
            .push(1)
            .op(op::ADD)
            .push(3)
            .op(op::SSTORE)
            .op(op::STOP)
            .build()
    }

    /// Sends `callvalue` on to the address in calldata[0] (a value-moving CALL from this context).
    pub fn forwarder() -> Vec<u8> {
        Asm::new()
            .push(0)
            .push(0)
            .push(0)
            .push(0)
            .op(op::CALLVALUE)
            .push(0)
            .op(op::CALLDATALOAD)
            .op(op::GAS)
            .op(op::CALL)
            .op(op::POP)
            .op(op::STOP)
            .build()
    }

    /// Spends from the *executing account's own balance*: CALL(calldata[0] address, value =
    /// calldata[32]). Used as a delegation target (value leaves the delegated EOA).
    pub fn spender() -> Vec<u8> {
        Asm::new()
            .push(0)
            .push(0)
            .push(0)
            .push(0)
            .push(32)
            .op(op::CALLDATALOAD)
            .push(0)
            .op(op::CALLDATALOAD)
            .op(op::GAS)
            .op(op::CALL)
            .push(1)
            .op(op::ADD)
            .push(6)
            .op(op::SSTORE)
            .op(op::STOP)
            .build()
    }

    /// Two spends in one execution: CALL(calldata[0], value calldata[32]); then
    /// CALL(calldata[64], value calldata[96]). (Several debits of one account in one transaction.)
    pub fn spender2() -> Vec<u8> {
        let mut a = Asm::new();
        for base in [0u64, 64] {
            a = a
                .push(0)
                .push(0)
                .push(0)
                .push(0)
                .push(base + 32)
                .op(op::CALLDATALOAD)
                .push(base)
                .op(op::CALLDATALOAD)
                .op(op::GAS)
                .op(op::CALL)
                .op(op::POP);
        }
        a.push(1).push(6).op(op::SSTORE).op(op::STOP).build()
    }
}

pub fn word(v: u64) -> [u8; 32] {
    U256::from(v).to_be_bytes::<32>()
}

pub fn word_addr(a: Address) -> [u8; 32] {
    let mut w = [0u8; 32];
    w[12..].copy_from_slice(a.as_slice());
    w
}

pub fn calldata(words: &[[u8; 32]]) -> Bytes {
    let mut v = Vec::with_capacity(words.len() * 32);
    for w in words {
        v.extend_from_slice(w);
    }
    Bytes::from(v)
}

/// CREATE2 address.
pub fn create2_address(deployer: Address, salt: u64, init: &[u8]) -> Address {
    deployer.create2(B256::from(U256::from(salt)), keccak256(init))
}

// ------------------------------------------------------------------------------------------------
// environment and transactions
// ------------------------------------------------------------------------------------------------

pub const GWEI: u128 = 1_000_000_000;
pub const ETHER: u128 = 1_000_000_000_000_000_000;

pub fn block_env(spec: SpecId) -> BlockEnv {
    let mut env = BlockEnv::default();
    env.number = U256::from(100u64);
    env.beneficiary = coinbase();
    env.timestamp = U256::from(1_700_000_000u64);
    env.gas_limit = 30_000_000;
    env.basefee = if spec.is_enabled_in(SpecId::LONDON) { 7 } else { 0 };
    env.difficulty = U256::ZERO;
    env.prevrandao = Some(B256::ZERO);
    if spec.is_enabled_in(SpecId::CANCUN) {
        env.set_blob_excess_gas_and_price(0, revm_primitives::eip4844::BLOB_BASE_FEE_UPDATE_FRACTION_CANCUN);
    }
    env
}

pub fn cfg_env(spec: SpecId, disable_nonce_check: bool) -> CfgEnv {
    let mut cfg = CfgEnv::new_with_spec(spec);
    cfg.chain_id = 1;
    cfg.disable_nonce_check = disable_nonce_check;
    cfg
}

/// A legacy transaction with gas price 10 (> basefee 7, so a non-zero tip post-London).
pub fn tx(from: Address, nonce: u64, to: Option<Address>, value: u128, data: Bytes) -> TxEnv {
    TxEnv {
        tx_type: 0,
        caller: from,
        gas_limit: 400_000,
        gas_price: 10,
        kind: to.map_or(TxKind::Create, TxKind::Call),
        value: U256::from(value),
        data,
        nonce,
        chain_id: Some(1),
        ..Default::default()
    }
}

pub fn transfer(from: Address, nonce: u64, to: Address, value: u128) -> TxEnv {
    let mut t = tx(from, nonce, Some(to), value, Bytes::new());
    t.gas_limit = 21_000;
    t
}

pub fn call(from: Address, nonce: u64, to: Address, words: &[[u8; 32]]) -> TxEnv {
    tx(from, nonce, Some(to), 0, calldata(words))
}

pub fn spec_name(s: SpecId) -> &'static str {
    match s {
        SpecId::FRONTIER => "FRONTIER",
        SpecId::HOMESTEAD => "HOMESTEAD",
        SpecId::TANGERINE => "TANGERINE",
        SpecId::SPURIOUS_DRAGON => "SPURIOUS_DRAGON",
        SpecId::BYZANTIUM => "BYZANTIUM",
        SpecId::PETERSBURG => "PETERSBURG",
        SpecId::ISTANBUL => "ISTANBUL",
        SpecId::BERLIN => "BERLIN",
        SpecId::LONDON => "LONDON",
        SpecId::MERGE => "MERGE",
        SpecId::SHANGHAI => "SHANGHAI",
        SpecId::CANCUN => "CANCUN",
        SpecId::PRAGUE => "PRAGUE",
        SpecId::OSAKA => "OSAKA",
        SpecId::AMSTERDAM => "AMSTERDAM",
        _ => "OTHER",
    }
}

/// EIP-1559 transaction.
pub fn with_1559(mut t: TxEnv, max_fee: u128, tip: u128) -> TxEnv {
    t.tx_type = 2;
    t.gas_price = max_fee;
    t.gas_priority_fee = Some(tip);
    t
}

/// An authorisation tuple with an explicit chain id and, optionally, an unrecoverable signature.
pub fn authorization_ext(
    auth: Address,
    auth_nonce: u64,
    target: Address,
    chain_id: u64,
    recoverable: bool,
) -> revm_context::either::Either<
    revm_context::transaction::SignedAuthorization,
    revm_context::transaction::RecoveredAuthorization,
> {
    use revm_context::transaction::{Authorization, RecoveredAuthority, RecoveredAuthorization};
    revm_context::either::Either::Right(RecoveredAuthorization::new_unchecked(
        Authorization { chain_id: U256::from(chain_id), address: target, nonce: auth_nonce },
        if recoverable { RecoveredAuthority::Valid(auth) } else { RecoveredAuthority::Invalid },
    ))
}

/// One EIP-7702 authorisation tuple (authority `auth` delegates to `target`; `Address::ZERO`
/// clears) with pre-recovered authority.
pub fn authorization(
    auth: Address,
    auth_nonce: u64,
    target: Address,
) -> revm_context::either::Either<
    revm_context::transaction::SignedAuthorization,
    revm_context::transaction::RecoveredAuthorization,
> {
    use revm_context::transaction::{Authorization, RecoveredAuthority, RecoveredAuthorization};
    revm_context::either::Either::Right(RecoveredAuthorization::new_unchecked(
        Authorization { chain_id: U256::from(1u64), address: target, nonce: auth_nonce },
        RecoveredAuthority::Valid(auth),
    ))
}

/// EIP-7702 (type 4) transaction wrapping `t` (must be a call).
pub fn with_auths(
    mut t: TxEnv,
    auths: Vec<
        revm_context::either::Either<
            revm_context::transaction::SignedAuthorization,
            revm_context::transaction::RecoveredAuthorization,
        >,
    >,
) -> TxEnv {
    t.tx_type = 4;
    t.gas_priority_fee = Some(1);
    t.authorization_list = auths;
    t
}
