//! Jobs: one bounded exploration of one driver, plus the bookkeeping that turns explorations into
//! the per-partition result file the driver script merges into evidence.

use crate::case::{Observation, Trace};
use crate::explorer::{self, Dev, ExecEnd, Granularity, Verdict};
use serde_json::{json, Value};
use std::cell::RefCell;
use std::collections::BTreeSet;
use std::sync::Arc;
use std::time::Instant;

pub struct ExecResult {
    pub obs: Option<Observation>,
    pub trace: Trace,
    /// family-specific additional observation (compared by the judge)
    pub extra: Value,
}

pub enum Judgement {
    Ok,
    /// `key`: a stable identifier of the witness class, used to match known findings
    Violation { key: String, detail: String },
}

pub type Body = Arc<dyn Fn() -> ExecResult + Send + Sync>;
pub type Judge = Arc<dyn Fn(&ExecResult) -> Judgement + Send + Sync>;

#[derive(Clone)]
pub struct Job {
    pub id: String,
    pub family: &'static str,
    pub gran: Granularity,
    pub bound: usize,
    /// partition the root's children over the worker processes (deep single-driver jobs) instead
    /// of assigning the whole job to one process
    pub split: bool,
    pub step_cap: u32,
    pub body: Body,
    pub judge: Judge,
    pub describe: Value,
    /// deadlock / livelock is a violation of the property this job serves (else: machinery stop)
    pub hang_is_violation: bool,
    /// fails the run as vacuous if no execution of this job was non-trivial
    pub must_be_nontrivial: bool,
    /// human-readable expected behaviour (reference outcomes), for `sched-mc show`
    pub show: Option<Arc<dyn Fn() -> String + Send + Sync>>,
    /// a sequential (no controlled scheduler) exhaustive enumeration instead of a schedule
    /// exploration: explicit-state search over operation histories, program sweeps
    pub seq: Option<SeqFn>,
}

/// `(partition, deadline, only-this-witness)` -> report
pub type SeqFn = Arc<dyn Fn((usize, usize), Option<Instant>, Option<&Value>) -> SeqReport + Send + Sync>;

#[derive(Default)]
pub struct SeqReport {
    pub evaluations: u64,
    pub states: u64,
    pub transitions: u64,
    pub nontrivial: u64,
    pub completed: bool,
    pub max_depth: usize,
    pub samples: Vec<Value>,
    pub digests: Vec<u64>,
    /// (key, detail, witness)
    pub violations: Vec<(String, String, Value)>,
    pub extra: Value,
}

thread_local! {
    /// when set, every execution's step record is printed (debugging aid: `sched-mc trace`)
    pub static PRINT_STEPS: std::cell::Cell<bool> = const { std::cell::Cell::new(false) };
    static LAST: RefCell<Option<ExecResult>> = const { RefCell::new(None) };
    static HANG_RECORDER: RefCell<Option<fn(Value)>> = const { RefCell::new(None) };
}

/// A deadlock/livelock ends the process right after the exploration callback (the suspended
/// coroutines cannot be unwound), so that violation is handed to this recorder immediately.
pub fn set_hang_recorder(f: fn(Value)) {
    HANG_RECORDER.with(|h| *h.borrow_mut() = Some(f));
}

#[derive(Default)]
pub struct JobReport {
    pub value: Value,
    pub violation: Option<Value>,
    pub known: Vec<Value>,
}

pub struct KnownFindings {
    pub keys: Vec<(String, String)>, // (property, key)
}

impl KnownFindings {
    pub fn load(path: &str) -> Self {
        let mut keys = Vec::new();
        if let Ok(s) = std::fs::read_to_string(path) {
            for line in s.lines() {
                let line = line.trim();
                if let Some(rest) = line.strip_prefix("finding:") {
                    let mut prop = None;
                    let mut key = None;
                    for tok in rest.split_whitespace() {
                        if let Some(p) = tok.strip_prefix("property=") {
                            prop = Some(p.to_string());
                        }
                        if let Some(k) = tok.strip_prefix("key=") {
                            key = Some(k.to_string());
                        }
                    }
                    if let (Some(p), Some(k)) = (prop, key) {
                        keys.push((p, k));
                    }
                }
            }
        }
        Self { keys }
    }
    pub fn is_known(&self, prop: &str, key: &str) -> bool {
        self.keys.iter().any(|(p, k)| p == prop && k == key)
    }
}

pub fn devs_json(devs: &[Dev]) -> Value {
    Value::Array(devs.iter().map(|d| json!([d.0, d.1])).collect())
}

/// Run one job (or, with `only`, one execution of it). Returns the report; a violation that is not
/// a known finding stops the exploration.
pub fn run_job(
    prop: &str,
    job: &Job,
    part: (usize, usize),
    claim_region: Option<usize>,
    deadline: Option<Instant>,
    only: Option<Vec<Dev>>,
    known: &KnownFindings,
) -> Result<JobReport, String> {
    if let Some(seq) = &job.seq {
        return Ok(run_seq_job(prop, job, seq, part, deadline, known, None));
    }
    let body = job.body.clone();
    let wrapped = move || {
        let r = body();
        LAST.with(|l| *l.borrow_mut() = Some(r));
    };
    let mut traces: BTreeSet<u64> = BTreeSet::new();
    let mut nt_traces: BTreeSet<u64> = BTreeSet::new();
    const DIGEST_CAP: usize = 20_000;
    let mut nontrivial_execs: u64 = 0;
    let mut reexec_execs: u64 = 0;
    let mut abort_execs: u64 = 0;
    let mut violation: Option<Value> = None;
    let mut known_hits: Vec<Value> = Vec::new();
    let mut known_count: u64 = 0;
    let mut sample_trace: Option<Value> = None;
    let judge = job.judge.clone();
    let started = Instant::now();
    let stats = explorer::explore(
        job.gran,
        job.bound,
        job.step_cap,
        part,
        job.id.bytes().fold(0u64, |h, b| h.wrapping_mul(31).wrapping_add(b as u64)),
        claim_region,
        deadline,
        only,
        wrapped,
        |devs, out, _counted| {
            let res = LAST.with(|l| l.borrow_mut().take());
            if PRINT_STEPS.with(|p| p.get()) {
                for (i, r) in out.record.iter().enumerate() {
                    println!("  step {i:4} task {:3} at {:<18} runnable {} -> {}", r.task, crate::point_name(r.point as u32), r.runnable, r.chosen);
                }
                if let Some(r) = &res {
                    println!("  extra: {}", r.extra);
                    println!("  trace: {:?}", r.trace);
                    if let Some(o) = &r.obs {
                        println!("  obs: error={:?} panic={:?} outcomes={}", o.error, o.panic, o.outcomes.len());
                    }
                }
            }
            let judgement = match (&out.end, res) {
                (ExecEnd::Completed, Some(res)) => {
                    if traces.len() < DIGEST_CAP {
                        traces.insert(res.trace.digest);
                    }
                    if res.trace.nontrivial() {
                        nontrivial_execs += 1;
                        if nt_traces.len() < DIGEST_CAP {
                            nt_traces.insert(res.trace.digest);
                        }
                    }
                    if res.trace.reexecutions > 0 {
                        reexec_execs += 1;
                    }
                    if !res.trace.aborts.is_empty() {
                        abort_execs += 1;
                    }
                    if sample_trace.is_none() || (sample_trace.as_ref().unwrap()["nontrivial"] == false && res.trace.nontrivial()) {
                        sample_trace = Some(json!({
                            "deviations": devs_json(devs),
                            "nontrivial": res.trace.nontrivial(),
                            "incarnations": res.trace.incarnations,
                            "reexecutions": res.trace.reexecutions,
                            "validation_failures": res.trace.validation_failures,
                            "aborts": res.trace.aborts,
                            "steps": out.record.len(),
                        }));
                    }
                    judge(&res)
                }
                (ExecEnd::Completed, None) => Judgement::Violation {
                    key: "machinery".into(),
                    detail: "execution body produced no result".into(),
                },
                (ExecEnd::Deadlock(msg), _) => Judgement::Violation {
                    key: "deadlock".into(),
                    detail: format!("deadlock: no runnable task ({msg})"),
                },
                (ExecEnd::Livelock, _) => Judgement::Violation {
                    key: "livelock".into(),
                    detail: format!("no termination within {} decisions under a fair suffix", job.step_cap),
                },
            };
            match judgement {
                Judgement::Ok => Verdict::Continue,
                Judgement::Violation { key, detail } => {
                    let detail: String = detail.chars().take(2500).collect();
                    let hang = key == "deadlock" || key == "livelock";
                    let v = json!({
                        "property": prop,
                        "job": job.id,
                        "family": job.family,
                        "granularity": job.gran.name(),
                        "deviations": devs_json(devs),
                        "key": key,
                        "detail": detail,
                        "hang": hang,
                        "hang_is_violation": job.hang_is_violation,
                        "describe": job.describe,
                        "steps": out.record.len(),
                    });
                    if known.is_known(prop, &key) {
                        known_count += 1;
                        if known_hits.len() < 3 {
                            known_hits.push(v);
                        }
                        Verdict::Continue
                    } else {
                        if hang {
                            HANG_RECORDER.with(|h| {
                                if let Some(f) = *h.borrow() {
                                    f(v.clone());
                                }
                            });
                        }
                        violation = Some(v);
                        Verdict::Stop
                    }
                }
            }
        },
    )?;
    let value = json!({
        "job": job.id,
        "family": job.family,
        "granularity": job.gran.name(),
        "bound": job.bound,
        "split": job.split,
        "executions": stats.executions,
        "by_depth": stats.by_depth,
        "root_steps": stats.root_steps,
        "max_steps": stats.max_steps,
        "completed": stats.completed,
        "deadline_hit": stats.deadline_hit,
        "distinct_traces": traces.len(),
        "trace_digests": traces.iter().collect::<Vec<_>>(),
        "nontrivial_digests": nt_traces.iter().collect::<Vec<_>>(),
        "digest_cap_hit": traces.len() >= DIGEST_CAP,
        "nontrivial_executions": nontrivial_execs,
        "reexecution_executions": reexec_execs,
        "abort_executions": abort_execs,
        "known_count": known_count,
        "sample": sample_trace,
        "describe": job.describe,
        "wall_s": started.elapsed().as_secs_f64(),
        "must_be_nontrivial": job.must_be_nontrivial,
    });
    Ok(JobReport { value, violation, known: known_hits })
}

pub fn run_seq_job(
    prop: &str,
    job: &Job,
    seq: &SeqFn,
    part: (usize, usize),
    deadline: Option<Instant>,
    known: &KnownFindings,
    only: Option<&Value>,
) -> JobReport {
    let started = Instant::now();
    let rep = seq(part, deadline, only);
    let mut violation = None;
    let mut known_hits = Vec::new();
    let mut known_count = 0u64;
    for (key, detail, witness) in rep.violations {
        let detail: String = detail.chars().take(2500).collect();
        let v = json!({
            "property": prop, "job": job.id, "family": job.family, "granularity": "sequential",
            "deviations": [], "seq_witness": witness, "key": key, "detail": detail,
            "hang": false, "hang_is_violation": false, "describe": job.describe, "steps": 0,
        });
        if known.is_known(prop, &key) {
            known_count += 1;
            if known_hits.len() < 3 {
                known_hits.push(v);
            }
        } else if violation.is_none() {
            violation = Some(v);
        }
    }
    let value = json!({
        "job": job.id, "family": job.family, "granularity": "sequential", "bound": 0, "split": job.split,
        "executions": rep.evaluations, "by_depth": [rep.evaluations], "root_steps": 0, "max_steps": rep.max_depth,
        "completed": rep.completed, "deadline_hit": !rep.completed,
        "distinct_traces": rep.digests.len(), "trace_digests": rep.digests, "nontrivial_digests": [],
        "digest_cap_hit": false, "nontrivial_executions": rep.nontrivial, "reexecution_executions": 0, "abort_executions": 0,
        "known_count": known_count, "sample": rep.samples.first(), "samples": rep.samples, "describe": job.describe,
        "wall_s": started.elapsed().as_secs_f64(), "must_be_nontrivial": job.must_be_nontrivial,
        "seq": {"states": rep.states, "transitions": rep.transitions, "nontrivial": rep.nontrivial, "max_depth": rep.max_depth, "extra": rep.extra},
    });
    JobReport { value, violation, known: known_hits }
}
