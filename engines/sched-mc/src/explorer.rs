//! Iterative deviation-bounding depth-first explorer (DESIGN.md §3.3), implemented as a
//! `shuttle_engine::scheduler::Scheduler`.
//!
//! * canonical schedule π₀: non-preemptive round-robin (keep the current task until it blocks,
//!   finishes or yields; then the next runnable task in cyclic id order);
//! * a *decision* is a call of `next_task` that the granularity admits (fine: all; coarse: protocol
//!   points, yields, blocking events);
//! * a *deviation* is the choice of a runnable task other than π₀'s at a decision; an execution is
//!   identified by its sorted deviation list `[(step, rank)]`;
//! * `explore(bound)` enumerates every execution with at most `bound` deviations exactly once, by
//!   DFS over deviation lists, re-executing the prefix and checking that the replayed prefix is
//!   identical (task, point id, #runnable) to the parent's record.
//!
//! The DFS bookkeeping runs inside `Scheduler::new_execution`, so that one `Runner::run` (one
//! coroutine pool) serves all executions of an exploration.

use grevm_verif_rt::{ctl, pt};
use shuttle_engine::scheduler::{Schedule, Scheduler, Task, TaskId};
use shuttle_engine::runtime::execution::Execution;
use shuttle_engine::runtime::thread::continuation::{ContinuationPool, CONTINUATION_POOL};
use shuttle_engine::{Config, FailurePersistence, MaxSteps};
use std::rc::Rc;
use std::cell::RefCell;
use std::panic::{catch_unwind, AssertUnwindSafe};
use std::time::Instant;

pub type Dev = (u32, u16);

#[derive(Clone, Copy, PartialEq, Eq, Debug)]
pub struct StepRec {
    pub task: u8,
    pub point: u16,
    pub runnable: u8,
    pub chosen: u8,
}

#[derive(Clone, Copy, PartialEq, Eq, Debug)]
pub enum Granularity {
    /// every intercepted operation is a decision
    Fine,
    /// protocol points, yields and blocking events are decisions
    Coarse,
    /// like coarse, but only the listed protocol points are decisions (larger atomic steps, so that
    /// a higher deviation bound can be completed on one driver); yields and blocking events always are
    Focus(&'static str, &'static [u32]),
}

impl Granularity {
    pub fn name(self) -> &'static str {
        match self {
            Granularity::Fine => "fine",
            Granularity::Coarse => "coarse",
            Granularity::Focus(name, _) => name,
        }
    }
}

/// How one execution ended, as far as the scheduler can tell.
#[derive(Clone, Debug, PartialEq, Eq)]
pub enum ExecEnd {
    Completed,
    /// no runnable task while some task is unfinished
    Deadlock(String),
    /// step cap exceeded under a fair suffix
    Livelock,
}

pub struct RunOutput<'a> {
    pub end: ExecEnd,
    pub record: &'a [StepRec],
}

/// What the per-execution callback tells the explorer.
pub enum Verdict {
    Continue,
    Stop,
}

/// Statistics of one bounded exploration.
#[derive(Clone, Debug, Default)]
pub struct ExploreStats {
    pub executions: u64,
    pub by_depth: Vec<u64>,
    pub root_steps: u32,
    pub max_steps: u32,
    /// the DFS ran to the end (no deadline, no Stop)
    pub completed: bool,
    pub deadline_hit: bool,
}

/// Dynamic work distribution between the explorer processes of one check. `bin/check` creates a
/// zero-filled file and passes its path in `VERIF_CLAIMS`; every process maps it shared. Entry
/// `region * REGION + index` is claimed by the first process whose compare-exchange 0 -> 1
/// succeeds. Every process enumerates the same split-depth children (and the same whole jobs) in
/// the same order, so each one is explored by exactly one process: the explored set is the same
/// as with static partitioning, only the assignment balances itself. Without the variable (or
/// beyond the region size) the static hash partition is used.
pub mod claims {
    use std::sync::atomic::{AtomicU8, Ordering};
    use std::sync::OnceLock;
    pub const REGION: usize = 1 << 20;
    static TABLE: OnceLock<Option<&'static [AtomicU8]>> = OnceLock::new();
    fn table() -> Option<&'static [AtomicU8]> {
        *TABLE.get_or_init(|| {
            let path = std::env::var("VERIF_CLAIMS").ok()?;
            let c = std::ffi::CString::new(path).ok()?;
            unsafe {
                let fd = libc::open(c.as_ptr(), libc::O_RDWR);
                if fd < 0 {
                    return None;
                }
                let mut st: libc::stat = std::mem::zeroed();
                if libc::fstat(fd, &mut st) != 0 || st.st_size <= 0 {
                    libc::close(fd);
                    return None;
                }
                let len = st.st_size as usize;
                let p = libc::mmap(std::ptr::null_mut(), len, libc::PROT_READ | libc::PROT_WRITE, libc::MAP_SHARED, fd, 0);
                libc::close(fd);
                if p == libc::MAP_FAILED {
                    return None;
                }
                Some(std::slice::from_raw_parts(p as *const AtomicU8, len))
            }
        })
    }
    /// `None`: no shared table (or out of range) -> the caller falls back to static partitioning.
    pub fn try_claim(region: usize, index: usize) -> Option<bool> {
        let t = table()?;
        if index >= REGION {
            return None;
        }
        let slot = t.get(region * REGION + index)?;
        Some(slot.compare_exchange(0, 1, Ordering::AcqRel, Ordering::Acquire).is_ok())
    }
}

struct Frame {
    devs: Vec<Dev>,
    alts: Vec<u8>,
    record: Vec<StepRec>,
    cur_step: usize,
    cur_rank: u8,
}

type OnExec<'a> = Box<dyn FnMut(&[Dev], &RunOutput<'_>, bool) -> Verdict + 'a>;

struct Driver<'a> {
    gran: Granularity,
    bound: usize,
    step_cap: u32,
    part: (usize, usize),
    salt: u64,
    claim_region: Option<usize>,
    deadline: Option<Instant>,
    on_exec: OnExec<'a>,
    stats: ExploreStats,
    stack: Vec<Frame>,
    root_started: bool,
    root_child_index: usize,
    split_depth: usize,
    error: Option<String>,
    stop: bool,
    polls: u32,
    // ---- the execution in progress
    in_progress: bool,
    counted: bool,
    devs: Vec<Dev>,
    di: usize,
    step: u32,
    record: Vec<StepRec>,
    alts: Vec<u8>,
    check_upto: u32,
    livelock: bool,
    /// "sticky" focus granularities (name starts with `sticky`): a deviation *suspends* the thread it
    /// passes over. Suspended threads are not offered until no other thread is runnable or all the
    /// others are spinning (yielding repeatedly); the oldest suspension is lifted first.
    suspended: Vec<usize>,
    yield_streak: [u8; 16],
}

thread_local! {
    // lifetime-erased; only alive during `explore`
    static DRIVER: RefCell<Option<Driver<'static>>> = const { RefCell::new(None) };
}

impl Driver<'_> {
    /// Finish the execution in progress (if any): verdict callback, DFS frame.
    fn finalize(&mut self, end: ExecEnd) {
        if !self.in_progress {
            return;
        }
        self.in_progress = false;
        if self.error.is_some() {
            return;
        }
        if self.di != self.devs.len() && end == ExecEnd::Completed {
            self.error = Some(format!(
                "execution ended at step {} before deviation {:?} was applied (deviations {:?})",
                self.step, self.devs[self.di], self.devs
            ));
            return;
        }
        if self.counted {
            self.stats.executions += 1;
            self.stats.by_depth[self.devs.len()] += 1;
        }
        self.stats.max_steps = self.stats.max_steps.max(self.record.len() as u32);
        if self.devs.is_empty() {
            self.stats.root_steps = self.record.len() as u32;
        }
        let out = RunOutput { end: end.clone(), record: &self.record };
        if let Verdict::Stop = (self.on_exec)(&self.devs, &out, self.counted) {
            self.stop = true;
            return;
        }
        if self.devs.len() < self.bound && end == ExecEnd::Completed {
            let first = self.devs.last().map_or(0, |d| d.0 as usize + 1);
            self.stack.push(Frame {
                devs: std::mem::take(&mut self.devs),
                alts: std::mem::take(&mut self.alts),
                record: std::mem::take(&mut self.record),
                cur_step: first,
                cur_rank: 0,
            });
        }
    }

    /// Choose the next deviation list; false when the exploration is over.
    fn start_next(&mut self) -> bool {
        if self.stop || self.error.is_some() {
            return false;
        }
        self.polls += 1;
        if self.polls % 128 == 0 {
            if let Some(d) = self.deadline {
                if Instant::now() > d {
                    self.stats.deadline_hit = true;
                    return false;
                }
            }
        }
        if !self.root_started {
            self.root_started = true;
            self.begin(vec![], 0, self.part.0 == 0);
            return true;
        }
        loop {
            let Some(top) = self.stack.last_mut() else {
                self.stats.completed = true;
                return false;
            };
            while top.cur_step < top.alts.len() && top.cur_rank >= top.alts[top.cur_step] {
                top.cur_step += 1;
                top.cur_rank = 0;
            }
            if top.cur_step >= top.alts.len() {
                self.stack.pop();
                continue;
            }
            let (s, r) = (top.cur_step as u32, top.cur_rank as u16);
            top.cur_rank += 1;
            // Partitioning: executions above the split depth are run by every partition (and counted
            // by partition 0 only); the children at the split depth are scattered over the
            // partitions by a hash, everything below belongs to whoever owns the ancestor. Splitting
            // at depth 2 (for bounds >= 3) evens out the very unequal subtree sizes.
            let depth = top.devs.len() + 1;
            if depth == self.split_depth {
                let idx = self.root_child_index;
                self.root_child_index += 1;
                let mine = match self.claim_region.and_then(|r| claims::try_claim(r, idx)) {
                    Some(won) => won,
                    None => {
                        let h = ((idx as u64).wrapping_add(self.salt)).wrapping_mul(0x9E37_79B9_7F4A_7C15);
                        ((h >> 33) as usize) % self.part.1 == self.part.0
                    }
                };
                if !mine {
                    continue;
                }
            }
            let counted = depth >= self.split_depth || self.part.0 == 0;
            let mut devs = top.devs.clone();
            devs.push((s, r));
            self.begin(devs, s + 1, counted);
            return true;
        }
    }

    fn begin(&mut self, devs: Vec<Dev>, check_upto: u32, counted: bool) {
        self.in_progress = true;
        self.counted = counted;
        self.devs = devs;
        self.di = 0;
        self.step = 0;
        self.record.clear();
        self.alts.clear();
        self.check_upto = check_upto;
        self.livelock = false;
        self.suspended.clear();
        self.yield_streak = [0; 16];
    }

    fn decide(&mut self, runnable: &[&Task], current: Option<TaskId>, is_yielding: bool) -> Option<TaskId> {
        let point = ctl::take_point();
        // parked tasks are offered as "spuriously wakeable": never pick them (park has no timeout)
        let mut buf: [usize; 16] = [0; 16];
        let mut n = 0;
        for t in runnable {
            if t.runnable() {
                assert!(n < 16, "too many tasks");
                buf[n] = usize::from(t.id());
                n += 1;
            }
        }
        if n == 0 {
            // only parked tasks: a lost wake-up. Let the runtime report the deadlock.
            return None;
        }
        let sticky = matches!(self.gran, Granularity::Focus(name, _) if name.starts_with("sticky"));
        if sticky {
            // a thread is "spinning" after two voluntary yields with no focus point in between
            // (points that are not decisions at this granularity do not count as progress)
            if let Some(c) = current.map(usize::from) {
                if c < 16 {
                    if is_yielding {
                        self.yield_streak[c] = self.yield_streak[c].saturating_add(1);
                    } else if let Granularity::Focus(_, set) = self.gran {
                        if set.contains(&point) {
                            self.yield_streak[c] = 0;
                        }
                    }
                }
            }
            // tasks that are gone or blocked need no suspension record
            self.suspended.retain(|t| buf[..n].contains(t));
            loop {
                let offered: Vec<usize> = buf[..n].iter().copied().filter(|t| !self.suspended.contains(t)).collect();
                let all_spinning = !offered.is_empty() && offered.iter().all(|&t| self.yield_streak[t.min(15)] >= 2);
                if (offered.is_empty() || all_spinning) && !self.suspended.is_empty() {
                    let released = self.suspended.remove(0);
                    self.yield_streak = [0; 16];
                    let _ = released;
                    continue;
                }
                break;
            }
            // hide the suspended tasks from this decision
            let mut m = 0;
            for i in 0..n {
                if !self.suspended.contains(&buf[i]) {
                    buf[m] = buf[i];
                    m += 1;
                }
            }
            n = m;
        }
        let ids = &buf[..n];
        let cur = current.map(usize::from);
        let cur_runnable = cur.is_some_and(|c| ids.contains(&c));
        let default = match cur {
            Some(c) if cur_runnable && !is_yielding => c,
            Some(c) => *ids.iter().find(|&&u| u > c).unwrap_or(&ids[0]),
            None => ids[0],
        };
        // coarse granularity: fine points and runtime-internal switches are not decisions
        if cur_runnable && !is_yielding {
            let skip = match self.gran {
                Granularity::Fine => false,
                Granularity::Coarse => point < pt::YIELD,
                Granularity::Focus(_, set) => {
                    point < pt::YIELD || (point >= pt::FIRST_PROTOCOL && !set.contains(&point))
                }
            };
            if skip {
                return Some(TaskId::from(default));
            }
        }
        let step = self.step;
        if step >= self.step_cap {
            // A fair suffix that does not terminate: report through the callback, then abandon the
            // process (the suspended coroutines cannot be unwound safely).
            self.livelock = true;
            self.finalize(ExecEnd::Livelock);
            abandon(self.error.as_deref());
        }
        let mut choice = default;
        let mut deviating = false;
        if let Some(&(ds, rank)) = self.devs.get(self.di) {
            if ds == step {
                self.di += 1;
                deviating = true;
                if (rank as usize) >= n - 1 {
                    abandon(Some(&format!(
                        "deviation rank {rank} out of range ({} alternatives) at step {step}, deviations {:?}",
                        n - 1,
                        self.devs
                    )));
                }
                let mut k = 0usize;
                for &u in ids {
                    if u == default {
                        continue;
                    }
                    if k == rank as usize {
                        choice = u;
                        break;
                    }
                    k += 1;
                }
                if sticky && choice != default {
                    self.suspended.push(default);
                }
            }
        }
        let rec = StepRec {
            task: cur.unwrap_or(255) as u8,
            point: point as u16,
            runnable: n as u8,
            chosen: choice as u8,
        };
        if step < self.check_upto {
            if let Some(parent) = self.stack.last() {
                let p = parent.record[step as usize];
                let same = p.task == rec.task &&
                    p.point == rec.point &&
                    p.runnable == rec.runnable &&
                    (p.chosen == rec.chosen || deviating);
                if !same {
                    abandon(Some(&format!(
                        "replay divergence at step {step}: parent {p:?} vs now {rec:?}, deviations {:?}",
                        self.devs
                    )));
                }
            }
        }
        self.record.push(rec);
        self.alts.push((n - 1) as u8);
        self.step += 1;
        Some(TaskId::from(choice))
    }
}

struct Sched;

impl Scheduler for Sched {
    fn new_execution(&mut self) -> Option<Schedule> {
        DRIVER.with(|d| {
            let mut d = d.borrow_mut();
            let d = d.as_mut().expect("driver");
            let end = if d.livelock { ExecEnd::Livelock } else { ExecEnd::Completed };
            d.finalize(end);
            if d.start_next() {
                Some(Schedule::new(0))
            } else {
                None
            }
        })
    }

    fn next_task(
        &mut self,
        runnable: &[&Task],
        current: Option<TaskId>,
        is_yielding: bool,
    ) -> Option<TaskId> {
        DRIVER.with(|d| d.borrow_mut().as_mut().expect("driver").decide(runnable, current, is_yielding))
    }

    fn next_u64(&mut self) -> u64 {
        0
    }
}

pub const STACK_SIZE: usize = 4 << 20;

/// Run `f` with a process-wide coroutine pool installed.
pub fn with_pool<R>(f: impl FnOnce() -> R) -> R {
    let pool = ContinuationPool::new();
    CONTINUATION_POOL.set(&pool, f)
}

thread_local! {
    static ABANDON: RefCell<Option<Box<dyn FnMut(Option<&str>)>>> = const { RefCell::new(None) };
}

/// Install the process-level handler for abnormal ends (livelock, deadlock, machinery error). It
/// receives `Some(message)` for a machinery error and `None` after a violation was reported through
/// the exploration callback; it must flush results. The process exits afterwards (1 = violation
/// reported, 2 = machinery error).
pub fn set_abandon_handler(f: Box<dyn FnMut(Option<&str>)>) {
    ABANDON.with(|a| *a.borrow_mut() = Some(f));
}

fn abandon(machinery_error: Option<&str>) -> ! {
    ctl::set_in_execution(false);
    ABANDON.with(|a| {
        if let Some(f) = a.borrow_mut().as_mut() {
            f(machinery_error);
        }
    });
    if let Some(e) = machinery_error {
        eprintln!("MACHINERY-ERROR: {e}");
        std::process::exit(2);
    }
    std::process::exit(1);
}

pub fn payload_to_string(payload: &Box<dyn std::any::Any + Send>) -> String {
    if let Some(s) = payload.downcast_ref::<&str>() {
        s.to_string()
    } else if let Some(s) = payload.downcast_ref::<String>() {
        s.clone()
    } else {
        "<non-string panic payload>".to_string()
    }
}

/// Enumerate all executions with at most `bound` deviations of `body` (with `only = Some(devs)`:
/// just that one execution). `part = (i, n)` restricts the *root's children* (and everything below
/// them) to those with index ≡ i (mod n); the root itself is run by every partition but counted by
/// partition 0 only.
///
/// `on_exec(devs, output, counted)` is called after every execution. `Err` = machinery error.
pub fn explore<'a, F>(
    gran: Granularity,
    bound: usize,
    step_cap: u32,
    part: (usize, usize),
    salt: u64,
    claim_region: Option<usize>,
    deadline: Option<Instant>,
    only: Option<Vec<Dev>>,
    body: F,
    on_exec: impl FnMut(&[Dev], &RunOutput<'_>, bool) -> Verdict + 'a,
) -> Result<ExploreStats, String>
where
    F: Fn() + Send + Sync + Clone + 'static,
{
    let on_exec: OnExec<'a> = Box::new(on_exec);
    // SAFETY: the driver (and with it the callback) is removed from the thread-local before this
    // function returns, so the erased lifetime never escapes 'a.
    let on_exec: OnExec<'static> = unsafe { std::mem::transmute(on_exec) };
    let mut driver = Driver {
        gran,
        bound,
        step_cap,
        part,
        salt,
        claim_region: if part.1 > 1 { claim_region } else { None },
        deadline,
        on_exec,
        stats: ExploreStats { by_depth: vec![0; bound.max(only.as_ref().map_or(0, |d| d.len())) + 1], ..Default::default() },
        stack: Vec::with_capacity(bound + 1),
        root_started: false,
        root_child_index: 0,
        split_depth: if bound >= 3 { 2 } else { 1 },
        error: None,
        stop: false,
        polls: 0,
        in_progress: false,
        counted: false,
        devs: vec![],
        di: 0,
        step: 0,
        record: Vec::with_capacity(1024),
        alts: Vec::with_capacity(1024),
        check_upto: 0,
        livelock: false,
        suspended: Vec::new(),
        yield_streak: [0; 16],
    };
    if let Some(devs) = only {
        // single replay: behave as if the root had been run and this is the only child
        driver.root_started = true;
        driver.bound = 0;
        driver.stack.clear();
        driver.begin(devs, 0, true);
        // `start_next` must not pick anything else afterwards
    }
    let single = driver.in_progress;
    DRIVER.with(|d| *d.borrow_mut() = Some(driver));
    struct Cleanup;
    impl Drop for Cleanup {
        fn drop(&mut self) {
            DRIVER.with(|d| *d.borrow_mut() = None);
            ctl::set_in_execution(false);
        }
    }
    let _cleanup = Cleanup;

    let fine = gran == Granularity::Fine;
    let mut first = true;
    loop {
        let mut config = Config::new();
        config.stack_size = STACK_SIZE;
        config.failure_persistence = FailurePersistence::None;
        config.max_steps = MaxSteps::None;
        config.silence_warnings = true;
        let sched: Rc<RefCell<dyn Scheduler>> = Rc::new(RefCell::new(SingleOrDfs { single: single && first }));
        first = false;
        let body = body.clone();
        let result = catch_unwind(AssertUnwindSafe(|| {
            // one coroutine pool for the whole process (see `with_pool`): stacks are reused across
            // executions *and* jobs
            loop {
                let schedule = match sched.borrow_mut().new_execution() {
                    None => break,
                    Some(s) => s,
                };
                let body = body.clone();
                Execution::new(sched.clone(), schedule).run(
                    &config,
                    move || {
                        // shuttle installs a verbose panic hook on its first execution; panics inside
                        // executions are observations here, so put the quiet hook back once
                        static QUIET: std::sync::Once = std::sync::Once::new();
                        QUIET.call_once(|| {
                            if std::env::var_os("VERIF_PANIC_TRACE").is_none() {
                                std::panic::set_hook(Box::new(|_| {}));
                            }
                        });
                        ctl::set_fine(fine);
                        ctl::set_in_execution(true);
                        body();
                        ctl::set_in_execution(false);
                    },
                    std::panic::Location::caller(),
                );
            }
        }));
        ctl::set_in_execution(false);
        match result {
            Ok(_) => break,
            Err(payload) => {
                let msg = payload_to_string(&payload);
                let done = DRIVER.with(|d| {
                    let mut d = d.borrow_mut();
                    let d = d.as_mut().expect("driver");
                    if d.error.is_some() {
                        return true;
                    }
                    if msg.starts_with("deadlock!") {
                        d.finalize(ExecEnd::Deadlock(msg.clone()));
                        let e = d.error.clone();
                        abandon(e.as_deref());
                    }
                    d.error = Some(format!(
                        "panic escaped the execution body: {msg} (deviations {:?})",
                        d.devs
                    ));
                    true
                });
                if done {
                    break;
                }
            }
        }
        if single {
            break;
        }
    }
    let driver = DRIVER.with(|d| d.borrow_mut().take()).expect("driver");
    if let Some(e) = driver.error {
        return Err(e);
    }
    Ok(driver.stats)
}

/// For a single replay the first `new_execution` must start the prepared execution instead of
/// asking the DFS for the next one.
struct SingleOrDfs {
    single: bool,
}

impl Scheduler for SingleOrDfs {
    fn new_execution(&mut self) -> Option<Schedule> {
        if self.single {
            self.single = false;
            return Some(Schedule::new(0));
        }
        Sched.new_execution()
    }
    fn next_task(&mut self, r: &[&Task], c: Option<TaskId>, y: bool) -> Option<TaskId> {
        Sched.next_task(r, c, y)
    }
    fn next_u64(&mut self) -> u64 {
        0
    }
}
