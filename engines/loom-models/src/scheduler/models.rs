//! The models. Everything under test is the production code (`super::cursor`, `super::context`,
//! `super::wait`, `crate::tx_dependency`); only the small drivers around it live here.

use super::context::SchedulerContext;
use super::cursor::{PublishedCursor, RewindableCursor};
use super::wait::WaitSlot;
use crate::tx_dependency::TxDependency;
use crate::Model;
use loom::sync::atomic::{AtomicBool, AtomicUsize, Ordering::*};
use loom::sync::{Arc, Mutex};
use loom::thread;
use std::time::Duration;

pub(crate) fn all() -> Vec<Model> {
    let mut v = Vec::new();
    cursor_models(&mut v);
    cursor_two_rewinders(&mut v);
    frontier_models(&mut v);
    frontier_seq_models(&mut v);
    timestamp_models(&mut v);
    protocol_models(&mut v);
    dependency_models(&mut v);
    wait_models(&mut v);
    v
}

// ------------------------------------------------------------------------------------------------
// C15.1 RewindableCursor: claims and a rewind
// ------------------------------------------------------------------------------------------------

fn cursor_models(v: &mut Vec<Model>) {
    const LIMIT: usize = 3;
    for claimers in [1usize, 2] {
        for start in 1..=LIMIT {
            for target in 0..start {
                v.push(Model {
                    id: format!("c15-cursor/claimers{claimers}/start{start}/rewind{target}"),
                    property: "C15",
            seq: false,
                    threads: claimers + 2,
                    describe: format!(
                        "{claimers} claimer(s) drain claim_before({LIMIT}) from position {start} while one thread rewinds to {target}"
                    ),
                    run: Box::new(move || {
                        let cursor = Arc::new(RewindableCursor::new(start));
                        let mut hs = Vec::new();
                        for _ in 0..claimers {
                            let c = cursor.clone();
                            hs.push(thread::spawn(move || {
                                let mut got = Vec::new();
                                while let Some(i) = c.claim_before(LIMIT) {
                                    got.push(i);
                                }
                                got
                            }));
                        }
                        let c = cursor.clone();
                        let rewinder = thread::spawn(move || c.rewind(target));
                        let mut counts = [0usize; LIMIT + 1];
                        for h in hs {
                            for i in h.join().unwrap() {
                                assert!(i < LIMIT, "claimed index {i} at or beyond the limit {LIMIT}");
                                counts[i] += 1;
                            }
                        }
                        let previous = rewinder.join().unwrap();
                        // final drain: whatever is still offered
                        while let Some(i) = cursor.claim_before(LIMIT) {
                            assert!(i < LIMIT);
                            counts[i] += 1;
                        }
                        assert!(cursor.get() >= LIMIT, "drain must leave the cursor at the limit");
                        // `previous` is the position the rewind replaced: indices in [start, previous)
                        // had been handed out before the rewind and must be handed out again; indices
                        // in [target, start) must be offered (again) once; the rest at least once.
                        for i in 0..LIMIT {
                            let need = if i < target {
                                0
                            } else if i < start {
                                1
                            } else if i < previous.min(LIMIT) {
                                2
                            } else {
                                1
                            };
                            assert!(
                                counts[i] >= need,
                                "index {i} offered {} time(s), needs {need} (start {start}, rewind to {target}, previous {previous})",
                                counts[i]
                            );
                        }
                    }),
                });
            }
        }
    }
}

fn cursor_two_rewinders(v: &mut Vec<Model>) {
    const LIMIT: usize = 3;
    for (t1, t2) in [(0usize, 1usize), (0, 2), (1, 2), (1, 1)] {
        v.push(Model {
            id: format!("c15-cursor/two-rewinds/{t1}+{t2}"),
            property: "C15",
            seq: false,
            threads: 4,
            describe: format!("one claimer drains from position {LIMIT} while two threads rewind to {t1} and {t2}: the lower target wins whatever the order"),
            run: Box::new(move || {
                let cursor = Arc::new(RewindableCursor::new(LIMIT));
                let c = cursor.clone();
                let claimer = thread::spawn(move || {
                    let mut got = Vec::new();
                    while let Some(i) = c.claim_before(LIMIT) {
                        got.push(i);
                    }
                    got
                });
                let r1 = {
                    let c = cursor.clone();
                    thread::spawn(move || c.rewind(t1))
                };
                let r2 = {
                    let c = cursor.clone();
                    thread::spawn(move || c.rewind(t2))
                };
                let mut counts = [0usize; LIMIT];
                for i in claimer.join().unwrap() {
                    assert!(i < LIMIT);
                    counts[i] += 1;
                }
                r1.join().unwrap();
                r2.join().unwrap();
                while let Some(i) = cursor.claim_before(LIMIT) {
                    counts[i] += 1;
                }
                for i in t1.min(t2)..LIMIT {
                    assert!(counts[i] >= 1, "index {i} was rewound (targets {t1},{t2}) but never offered again");
                }
            }),
        });
    }
}

// ------------------------------------------------------------------------------------------------
// C15.2 first-unexecuted frontier (through SchedulerContext::executed / execution_frontier)
// ------------------------------------------------------------------------------------------------

fn frontier_models(v: &mut Vec<Model>) {
    // every split of 3 indices over 2 publishers, in every order, + 1 reader; and 3 publishers
    let splits: Vec<Vec<Vec<usize>>> = vec![
        vec![vec![0, 1], vec![2]],
        vec![vec![1, 0], vec![2]],
        vec![vec![2], vec![0, 1]],
        vec![vec![0, 2], vec![1]],
        vec![vec![2, 0], vec![1]],
        vec![vec![1], vec![2, 0]],
        vec![vec![1, 2], vec![0]],
        vec![vec![2, 1], vec![0]],
        vec![vec![0], vec![1], vec![2]],
        vec![vec![2], vec![1], vec![0]],
    ];
    for split in splits {
        let label = split.iter().map(|p| p.iter().map(|i| i.to_string()).collect::<Vec<_>>().join(",")).collect::<Vec<_>>().join("|");
        let threads = split.len() + 2;
        v.push(Model {
            id: format!("c15-frontier/publish[{label}]"),
            property: "C15",
            seq: false,
            threads,
            describe: format!("publishers complete executions [{label}] while a reader samples the frontier"),
            run: Box::new(move || {
                const N: usize = 3;
                let ctx = Arc::new(SchedulerContext::new(N));
                // written (Relaxed) *before* an index is published: a frontier that passed index i
                // must make everything sequenced before `executed(i)` visible
                let done: Arc<Vec<AtomicBool>> = Arc::new((0..N).map(|_| AtomicBool::new(false)).collect());
                let mut hs = Vec::new();
                for part in split.clone() {
                    let ctx = ctx.clone();
                    let done = done.clone();
                    hs.push(thread::spawn(move || {
                        for i in part {
                            done[i].store(true, Relaxed);
                            ctx.executed(i);
                        }
                    }));
                }
                let reader = {
                    let ctx = ctx.clone();
                    let done = done.clone();
                    thread::spawn(move || {
                        let f = ctx.execution_frontier();
                        assert!(f <= N);
                        for i in 0..f {
                            assert!(
                                done[i].load(Relaxed),
                                "frontier {f} passed transaction {i} whose execution is not visible"
                            );
                        }
                        f
                    })
                };
                for h in hs {
                    h.join().unwrap();
                }
                let _ = reader.join().unwrap();
                assert_eq!(ctx.execution_frontier(), N, "frontier must catch up with all completed executions");
            }),
        });
    }
    // a reader alone must be able to help a delayed publisher (the publisher stores the flag; the
    // frontier advance is done by whoever comes next)
    v.push(Model {
        id: "c15-frontier/concurrent-readers".into(),
        property: "C15",
            seq: false,
        threads: 4,
        describe: "two readers and one out-of-order publisher; both readers' frontiers are sound, the last one is complete".into(),
        run: Box::new(|| {
            const N: usize = 2;
            let ctx = Arc::new(SchedulerContext::new(N));
            let done: Arc<Vec<AtomicBool>> = Arc::new((0..N).map(|_| AtomicBool::new(false)).collect());
            let p = {
                let (ctx, done) = (ctx.clone(), done.clone());
                thread::spawn(move || {
                    for i in [1usize, 0] {
                        done[i].store(true, Relaxed);
                        ctx.executed(i);
                    }
                })
            };
            let rs: Vec<_> = (0..2)
                .map(|_| {
                    let (ctx, done) = (ctx.clone(), done.clone());
                    thread::spawn(move || {
                        let f = ctx.execution_frontier();
                        for i in 0..f {
                            assert!(done[i].load(Relaxed), "frontier {f} passed unexecuted {i}");
                        }
                        // validation claims never pass the frontier
                        if let Some(i) = ctx.next_validation_idx(N) {
                            assert!(done[i].load(Relaxed), "validation claim {i} beyond the execution frontier");
                        }
                    })
                })
                .collect();
            p.join().unwrap();
            for r in rs {
                r.join().unwrap();
            }
            assert_eq!(ctx.execution_frontier(), N);
        }),
    });
}

// ------------------------------------------------------------------------------------------------
// C15.2b the frontier over index ranges around machine-word sizes, sequentially
// ------------------------------------------------------------------------------------------------
// (seeded change C15b packed the executed flags 64 to a word and mis-scanned across a word
// boundary: invisible on ranges of 64 or fewer, and needing no interleaving at all.) Bounded
// exhaustive enumeration of completion orders against a boolean-vector reference: for every
// prefix length K <= N, every hole set H of [0,K) with |H| <= 1 (|H| <= 2 for K within two of a
// multiple of 64), the other indices of [0,K) completed in ascending and in descending order, then
// the holes filled in every order. After every completion the frontier must equal the first
// uncompleted index, and the validation claims handed out afterwards must all lie below it.

/// Runs a batch of completion orders inside one (single-threaded) loom execution; every order on
/// a fresh `SchedulerContext`.
fn frontier_seq_batch(n: usize, orders: Vec<Vec<usize>>) {
    if orders.is_empty() {
        return;
    }
    crate::ITERATIONS.fetch_add(orders.len() as u64, std::sync::atomic::Ordering::Relaxed);
    crate::OPLOG.lock().unwrap().clear();
    for o in &orders {
        let desc = if o.windows(2).all(|w| w[1] == w[0] + 1) { format!("ascending 0..{}", o.len()) } else { format!("len {} first {:?} last {:?}", o.len(), &o[..o.len().min(4)], &o[o.len().saturating_sub(4)..]) };
        crate::oplog(format!("n={n} order: {desc}"));
    }
    let mut b = loom::model::Builder::new();
    b.max_branches = 1_000_000;
    b.max_threads = 2;
    b.log = false;
    b.check(move || {
        for order in &orders {
            let ctx = SchedulerContext::new(n);
            let mut done = vec![false; n];
            let mut first = 0;
            for &i in order {
                done[i] = true;
                ctx.executed(i);
                while first < n && done[first] {
                    first += 1;
                }
                let f = ctx.execution_frontier();
                assert_eq!(
                    f, first,
                    "frontier after completing {:?}.. of {n}: got {f}, first transaction without a completed execution is {first}",
                    &order[..order.len().min(6)]
                );
            }
            let mut claims = 0;
            while let Some(i) = ctx.next_validation_idx(n) {
                assert!(i < first, "validation claim {i} at or beyond the first unexecuted transaction {first}");
                claims += 1;
                assert!(claims <= n);
            }
            assert_eq!(claims, first, "every executed transaction below the frontier is offered for validation once");
        }
    });
}

fn frontier_seq_models(v: &mut Vec<Model>) {
    for n in [3usize, 9, 65, 130, 200] {
        v.push(Model {
            id: format!("c15-frontier-seq/n{n}"),
            property: "C15",
            seq: true,
            threads: 1,
            describe: format!(
                "sequential enumeration over {n} transactions (all permutations for n = 3; n = 9: every prefix and every hole set of size <= 2; larger n: prefixes ending next to a multiple of 64 or to the ends, holes next to the ends of the prefix and to multiples of 64, pairs of them), ascending and descending completion, every fill order; frontier = first uncompleted index after every completion"
            ),
            run: Box::new(move || {
                let mut batch: Vec<Vec<usize>> = Vec::new();
                if n <= 3 {
                    let mut idx: Vec<usize> = (0..n).collect();
                    permute(&mut idx, 0, &mut |p| batch.push(p.to_vec()));
                    frontier_seq_batch(n, batch);
                    return;
                }
                for k in 1..=n {
                    if crate::past_deadline() {
                        crate::mark_incomplete();
                        break;
                    }
                    let near = (k % 64 <= 2) || (k % 64 >= 62);
                    // small ranges: every prefix and every hole; larger ones: prefixes that end next
                    // to a multiple of 64 or to the ends of the range, holes next to the ends of the
                    // prefix and to multiples of 64 (everything else has a counterpart in n = 9)
                    if n > 9 && !(near || k <= 3 || k + 2 >= n || k % 64 == 32) {
                        continue;
                    }
                    let mut hole_sets: Vec<Vec<usize>> = vec![vec![]];
                    for a in 0..k {
                        if n <= 9 || a < 3 || a + 3 >= k || a % 64 <= 1 || a % 64 >= 62 {
                            hole_sets.push(vec![a]);
                        }
                    }
                    if near || n <= 9 {
                        for a in 0..k {
                            for b in a + 1..k {
                                let interesting = |x: usize| n <= 9 || x < 2 || x + 2 >= k || x % 64 <= 1 || x % 64 >= 62;
                                if interesting(a) && interesting(b) {
                                    hole_sets.push(vec![a, b]);
                                }
                            }
                        }
                    }
                    for holes in hole_sets {
                        for descending in [false, true] {
                            let mut base: Vec<usize> = (0..k).filter(|i| !holes.contains(i)).collect();
                            if descending {
                                base.reverse();
                            }
                            let mut fills = vec![holes.clone()];
                            if holes.len() == 2 {
                                fills.push(vec![holes[1], holes[0]]);
                            }
                            for fill in fills {
                                let mut order = base.clone();
                                order.extend(fill);
                                // one loom execution per case: loom's object tracking does not
                                // survive many contexts of this size in one execution
                                frontier_seq_batch(n, vec![order]);
                            }
                        }
                    }
                    if batch.len() >= 1 {
                        frontier_seq_batch(n, std::mem::take(&mut batch));
                    }
                }
                frontier_seq_batch(n, batch);
            }),
        });
    }
}

fn permute(v: &mut Vec<usize>, k: usize, f: &mut dyn FnMut(&[usize])) {
    if k == v.len() {
        f(v);
        return;
    }
    for i in k..v.len() {
        v.swap(k, i);
        permute(v, k + 1, f);
        v.swap(k, i);
    }
}

// ------------------------------------------------------------------------------------------------
// C15.3 a validation that predates a covering rewind never makes its transaction final
// ------------------------------------------------------------------------------------------------

#[derive(Clone, Copy, PartialEq, Eq, Debug)]
enum St {
    Executed,
    Unconfirmed,
    Final,
}

struct Tx {
    status: St,
    rewind_ts: usize,
    final_ts: usize,
}

fn timestamp_models(v: &mut Vec<Model>) {
    // two rewinds of the same index by different workers (a failed validation of tx 0 rewinds to 1,
    // so does a conflicted execution of tx 0's retry): the rewind bound of the index may only grow.
    // Each rewinder draws a logical timestamp first; the rewind's own timestamp is newer than that,
    // so once both have returned the bound must be newer than both witnesses.
    v.push(Model {
        id: "c15-timestamps/two-rewinders-same-index".into(),
        property: "C15",
        seq: false,
        threads: 3,
        describe: "two workers rewind validation to the same index concurrently; afterwards the index's rewind bound is newer than a timestamp each of them drew before rewinding, and the cursor is at or below the index".into(),
        run: Box::new(|| {
            let ctx = Arc::new(SchedulerContext::new(3));
            for i in 0..3 {
                ctx.executed(i);
            }
            while ctx.next_validation_idx(3).is_some() {}
            let hs: Vec<_> = (0..2)
                .map(|_| {
                    let ctx = ctx.clone();
                    thread::spawn(move || {
                        let witness = ctx.logical_timestamp();
                        ctx.rewind_validation_to(1);
                        witness
                    })
                })
                .collect();
            let ws: Vec<usize> = hs.into_iter().map(|h| h.join().unwrap()).collect();
            let bound = ctx.lower_timestamp(1);
            for w in ws {
                assert!(bound > w, "rewind bound {bound} of index 1 is not newer than the timestamp {w} drawn before one of its rewinds");
            }
            assert!(ctx.validation_idx() <= 1);
        }),
    });
    for revalidators in [1usize, 2] {
        v.push(Model {
            id: format!("c15-timestamps/revalidators{revalidators}"),
            property: "C15",
            seq: false,
            threads: revalidators + 3,
            describe: format!(
                "tx 0 validated once; a re-execution rewinds validation to 0, {revalidators} worker(s) re-claim and re-validate, the finality reader applies the production eligibility test"
            ),
            run: Box::new(move || {
                let ctx = Arc::new(SchedulerContext::new(1));
                ctx.executed(0);
                // first validation, done before the race starts
                assert_eq!(ctx.next_validation_idx(1), Some(0));
                let ts = ctx.logical_timestamp();
                ctx.unconfirmed(0, ts);
                let tx = Arc::new(Mutex::new(Tx { status: St::Unconfirmed, rewind_ts: 0, final_ts: 0 }));

                let rewinder = {
                    let (ctx, tx) = (ctx.clone(), tx.clone());
                    thread::spawn(move || {
                        // a re-execution of tx 0 that wrote a new location (execute_task): under the
                        // transaction lock the status is replaced and validation is rewound to 0
                        let mut t = tx.lock().unwrap();
                        if t.status == St::Final {
                            return;
                        }
                        t.status = St::Executed;
                        ctx.rewind_validation_to(0);
                        t.rewind_ts = ctx.lower_timestamp(0);
                    })
                };
                let mut hs = Vec::new();
                for _ in 0..revalidators {
                    let (ctx, tx) = (ctx.clone(), tx.clone());
                    hs.push(thread::spawn(move || {
                        // worker: claim a validation if one is offered, validate (timestamp first)
                        if ctx.next_validation_idx(1) == Some(0) {
                            let mut t = tx.lock().unwrap();
                            if t.status == St::Executed || t.status == St::Unconfirmed {
                                let ts = ctx.logical_timestamp();
                                ctx.unconfirmed(0, ts);
                                t.status = St::Unconfirmed;
                            }
                        }
                    }));
                }
                let finality = {
                    let (ctx, tx) = (ctx.clone(), tx.clone());
                    thread::spawn(move || {
                        // lock_finality_candidate(0, 0)
                        if 0 >= ctx.validation_idx() {
                            return;
                        }
                        let mut t = tx.lock().unwrap();
                        if t.status != St::Unconfirmed {
                            return;
                        }
                        let lower = ctx.lower_timestamp(0);
                        let u = ctx.unconfirmed_timestamp(0);
                        if u > lower {
                            t.status = St::Final;
                            t.final_ts = u;
                        }
                    })
                };
                rewinder.join().unwrap();
                for h in hs {
                    h.join().unwrap();
                }
                finality.join().unwrap();
                let t = tx.lock().unwrap();
                if t.rewind_ts != 0 && t.final_ts != 0 {
                    assert!(
                        t.final_ts > t.rewind_ts,
                        "finality was granted on validation timestamp {} although a rewind with timestamp {} covers the transaction",
                        t.final_ts,
                        t.rewind_ts
                    );
                }
                if t.rewind_ts != 0 && t.status == St::Executed {
                    // nobody re-validated: the rewound index must still be on offer
                    assert_eq!(ctx.next_validation_idx(1), Some(0), "rewind must leave tx 0 available for validation");
                }
            }),
        });
    }
}

// ------------------------------------------------------------------------------------------------
// C15.4 the validation / rewind / finality protocol on a three-transaction dependency chain
// ------------------------------------------------------------------------------------------------
//
// tx1 reads what tx0 wrote, tx2 reads what tx1 wrote (one multi-version entry per writer, behind
// its own lock like a DashMap shard). The worker-side protocol around the production
// `SchedulerContext` is re-stated from scheduler.rs (`next`, `validate`, the end of
// `execute_task`, `lock_finality_candidate` + the finality loop's carried lower bound): claims are
// advisory, the per-transaction lock and status decide, a validation takes its timestamp before
// the scan, a failed validation marks the writer's entry as an estimate and rewinds to i+1, a
// re-execution either rewinds to i (new write location) or validates itself. Verdicts are *real*
// (computed from the entries), except that tx0's validation held at the start fails (its unseen
// predecessor changed). Oracle: a transaction is never made final on a read of a superseded
// incarnation of its predecessor - "a validation that predates a covering rewind never makes its
// transaction eligible".

#[derive(Clone, Copy, Debug, PartialEq, Eq)]
enum Cs {
    Executed,
    Validating,
    Unconfirmed,
    Conflict,
    Final,
}

struct PTx {
    status: Cs,
    incarnation: usize,
    /// incarnation of the predecessor's entry this incarnation read
    read_inc: usize,
}

#[derive(Clone, Copy)]
struct Entry {
    incarnation: usize,
    estimate: bool,
}

#[derive(Clone, Copy, Debug, PartialEq, Eq)]
enum POp {
    /// `next()` + `validate()`: claim an index, Executed|Unconfirmed -> Validating, validate
    ClaimValidate,
    /// `next()` only: the claimer is preempted before it takes the transaction lock
    ClaimOnly,
    /// re-execute transaction i (must be in Conflict) keeping its write set: validates itself
    Reexec(usize),
    /// re-execute transaction i (must be in Conflict) with a new write location: rewind to i
    ReexecNewWrite(usize),
}

struct Proto {
    ctx: SchedulerContext,
    tx: [Mutex<PTx>; 3],
    /// multi-version entries of the writers tx0, tx1 (tx2's is never read)
    mv: [Mutex<Entry>; 2],
}

impl Proto {
    const N: usize = 3;

    fn verdict(&self, i: usize, t: &PTx, fail0: bool) -> bool {
        if i == 0 {
            return !fail0;
        }
        let e = *self.mv[i - 1].lock().unwrap();
        !e.estimate && e.incarnation == t.read_inc
    }

    /// `validate()` for a transaction whose status was set to Validating by the caller's claim
    fn validate(&self, i: usize, fail0: bool) {
        let mut t = self.tx[i].lock().unwrap();
        if t.status != Cs::Validating {
            return;
        }
        let ts = self.ctx.logical_timestamp();
        let ok = self.verdict(i, &t, fail0);
        if ok {
            self.ctx.unconfirmed(i, ts);
            t.status = Cs::Unconfirmed;
        } else {
            if i < 2 {
                self.mv[i].lock().unwrap().estimate = true;
            }
            self.ctx.rewind_validation_to(i + 1);
            t.status = Cs::Conflict;
        }
    }

    fn claim(&self) -> Option<usize> {
        self.ctx.next_validation_idx(Self::N)
    }

    fn claim_validate(&self) -> bool {
        let Some(i) = self.claim() else { return false };
        {
            let mut t = self.tx[i].lock().unwrap();
            match t.status {
                Cs::Executed | Cs::Unconfirmed => t.status = Cs::Validating,
                _ => return true,
            }
        }
        self.validate(i, false);
        true
    }

    /// `execution_task` + `execute_task` for a transaction in Conflict
    fn reexec(&self, i: usize, new_write: bool) -> bool {
        let mut t = self.tx[i].lock().unwrap();
        if t.status != Cs::Conflict {
            return false;
        }
        t.incarnation += 1;
        let mut blocked = false;
        if i > 0 {
            let e = *self.mv[i - 1].lock().unwrap();
            blocked = e.estimate;
            t.read_inc = e.incarnation;
        }
        if blocked {
            // read an estimate: the attempt is a conflict again (its old entry stays an estimate)
            self.ctx.executed(i);
            self.ctx.rewind_validation_to(i + 1);
            return true;
        }
        if i < 2 {
            *self.mv[i].lock().unwrap() = Entry { incarnation: t.incarnation, estimate: false };
        }
        t.status = Cs::Executed;
        self.ctx.executed(i);
        if new_write {
            self.ctx.rewind_validation_to(i);
        } else {
            t.status = Cs::Validating;
            drop(t);
            self.validate(i, false);
        }
        true
    }

    fn apply(&self, op: POp) -> bool {
        match op {
            POp::ClaimValidate => self.claim_validate(),
            POp::ClaimOnly => self.claim().is_some(),
            POp::Reexec(i) => self.reexec(i, false),
            POp::ReexecNewWrite(i) => self.reexec(i, true),
        }
    }

    /// one pass of the finality loop from `idx` with the carried lower bound; returns the new pair
    fn finality_pass(&self, mut idx: usize, mut lower: usize, final_inc: &mut [usize; 3]) -> (usize, usize) {
        while idx < Self::N {
            // lock_finality_candidate(idx, lower)
            if idx >= self.ctx.validation_idx() {
                break;
            }
            let mut t = self.tx[idx].lock().unwrap();
            if t.status != Cs::Unconfirmed {
                break;
            }
            let effective = lower.max(self.ctx.lower_timestamp(idx));
            if self.ctx.unconfirmed_timestamp(idx) <= effective {
                break;
            }
            lower = effective;
            t.status = Cs::Final;
            final_inc[idx] = t.incarnation;
            if idx > 0 {
                assert_eq!(
                    t.read_inc,
                    final_inc[idx - 1],
                    "tx {idx} became final on a read of incarnation {} of tx {}, whose final incarnation is {} (its validation predates the rewind that covers it)",
                    t.read_inc,
                    idx - 1,
                    final_inc[idx - 1]
                );
            }
            drop(t);
            self.ctx.publish_finality(idx + 1);
            idx += 1;
        }
        (idx, lower)
    }
}

fn proto_new() -> Proto {
    let ctx = SchedulerContext::new(3);
    for i in 0..3 {
        ctx.executed(i);
    }
    // tx0 and tx2 are claimed and Validating (held by the script thread resp. the validator), tx1
    // has been validated
    assert_eq!(ctx.next_validation_idx(3), Some(0));
    assert_eq!(ctx.next_validation_idx(3), Some(1));
    let ts = ctx.logical_timestamp();
    ctx.unconfirmed(1, ts);
    assert_eq!(ctx.next_validation_idx(3), Some(2));
    Proto {
        ctx,
        tx: [
            Mutex::new(PTx { status: Cs::Validating, incarnation: 1, read_inc: 0 }),
            Mutex::new(PTx { status: Cs::Unconfirmed, incarnation: 1, read_inc: 1 }),
            Mutex::new(PTx { status: Cs::Validating, incarnation: 1, read_inc: 1 }),
        ],
        mv: [Mutex::new(Entry { incarnation: 1, estimate: false }), Mutex::new(Entry { incarnation: 1, estimate: false })],
    }
}

fn pop_label(s: &[POp]) -> String {
    s.iter()
        .map(|o| match o {
            POp::ClaimValidate => "cv".to_string(),
            POp::ClaimOnly => "c".to_string(),
            POp::Reexec(i) => format!("x{i}"),
            POp::ReexecNewWrite(i) => format!("n{i}"),
        })
        .collect::<Vec<_>>()
        .join(",")
}

/// All scripts of length `len` in which every step does something when the script thread runs
/// alone (sequential simulation on the same production objects, outside loom's exploration: the
/// cells are created inside a throw-away loom model).
fn proto_scripts(len: usize) -> Vec<Vec<POp>> {
    let alphabet = [
        POp::ClaimValidate,
        POp::ClaimOnly,
        POp::Reexec(0),
        POp::ReexecNewWrite(0),
        POp::Reexec(1),
        POp::ReexecNewWrite(1),
        POp::Reexec(2),
    ];
    let mut all: Vec<Vec<POp>> = vec![vec![]];
    for _ in 0..len {
        let mut next = Vec::new();
        for s in &all {
            for op in alphabet {
                let mut s2 = s.clone();
                s2.push(op);
                next.push(s2);
            }
        }
        all = next;
    }
    let mut keep = Vec::new();
    for s in all {
        let ok = std::sync::Arc::new(std::sync::atomic::AtomicBool::new(false));
        let (ok2, s2) = (ok.clone(), s.clone());
        let mut b = loom::model::Builder::new();
        b.log = false;
        b.check(move || {
            let p = proto_new();
            p.validate(0, true);
            let mut effective = true;
            let mut reexecs = 0;
            for &op in &s2 {
                if !p.apply(op) {
                    effective = false;
                    break;
                }
                if matches!(op, POp::Reexec(_) | POp::ReexecNewWrite(_)) {
                    reexecs += 1;
                }
            }
            ok2.store(effective && reexecs >= 1, std::sync::atomic::Ordering::SeqCst);
        });
        if ok.load(std::sync::atomic::Ordering::SeqCst) {
            keep.push(s);
        }
    }
    keep
}

fn parse_pops(label: &str) -> Option<Vec<POp>> {
    label
        .split(',')
        .map(|t| match t {
            "cv" => Some(POp::ClaimValidate),
            "c" => Some(POp::ClaimOnly),
            "x0" => Some(POp::Reexec(0)),
            "x1" => Some(POp::Reexec(1)),
            "x2" => Some(POp::Reexec(2)),
            "n0" => Some(POp::ReexecNewWrite(0)),
            "n1" => Some(POp::ReexecNewWrite(1)),
            _ => None,
        })
        .collect()
}

/// Look a model up by id without enumerating the protocol scripts (their ids carry the script).
pub(crate) fn find(id: &str) -> Option<Model> {
    if let Some(rest) = id.strip_prefix("c15-protocol/") {
        let (len, label) = rest.split_once('/')?;
        let script = parse_pops(label)?;
        return Some(protocol_model(len.strip_prefix("len")?.parse().ok()?, script));
    }
    let mut v = Vec::new();
    cursor_models(&mut v);
    cursor_two_rewinders(&mut v);
    frontier_models(&mut v);
    frontier_seq_models(&mut v);
    timestamp_models(&mut v);
    dependency_models(&mut v);
    wait_models(&mut v);
    v.into_iter().find(|m| m.id == id)
}

fn protocol_models(v: &mut Vec<Model>) {
    for len in [3usize, 4, 5] {
        for script in proto_scripts(len) {
            v.push(protocol_model(len, script));
        }
    }
}

fn protocol_model(len: usize, script: Vec<POp>) -> Model {
    let label = pop_label(&script);
    {
        {
            Model {
                id: format!("c15-protocol/len{len}/{label}"),
                property: "C15",
            seq: false,
                threads: 4,
                describe: format!(
                    "three-transaction chain: the script thread fails the validation of tx0 it holds, then runs [{label}] (cv = claim+validate, c = claim only, xI = re-execute I and self-validate, nI = re-execute I with a new write location); a validator holds a claim on tx2; the finality thread applies the production eligibility test with the carried lower bound; no transaction may become final on a superseded read"
                ),
                run: Box::new(move || {
                    let p = Arc::new(proto_new());
                    let script = script.clone();
                    let r = {
                        let p = p.clone();
                        thread::spawn(move || {
                            p.validate(0, true);
                            for op in script {
                                p.apply(op);
                            }
                        })
                    };
                    let val = {
                        let p = p.clone();
                        thread::spawn(move || p.validate(2, false))
                    };
                    let fin = {
                        let p = p.clone();
                        thread::spawn(move || {
                            let mut final_inc = [0usize; 3];
                            let (i, l) = p.finality_pass(0, 0, &mut final_inc);
                            thread::yield_now();
                            let (i, l) = p.finality_pass(i, l, &mut final_inc);
                            (i, l, final_inc)
                        })
                    };
                    r.join().unwrap();
                    val.join().unwrap();
                    let (i, l, mut final_inc) = fin.join().unwrap();
                    // whatever is eligible once everything has settled
                    p.finality_pass(i, l, &mut final_inc);
                }),
            }
        }
    }
}

// ------------------------------------------------------------------------------------------------
// C16 TxDependency: a blocked transaction is always re-offered, to exactly one claimer
// ------------------------------------------------------------------------------------------------

#[derive(Clone, Copy, Debug, PartialEq, Eq)]
enum Outcome {
    Ok,
    /// conflict: wait for predecessor
    Blocked(usize),
    /// error: wait for the own commit boundary
    KeyTx,
    /// conflict whose blockers are all final already: no predecessor to wait for, re-offer at once
    /// (`add(t, None)`)
    Retry,
}

#[derive(Clone, Copy, PartialEq, Eq, Debug)]
enum Ws {
    Initial,
    Executing,
    Conflict,
    Executed,
}

struct TxW {
    status: Ws,
    attempt: usize,
    blocker: Option<usize>,
    waiting_for_commit: bool,
    /// harness clock value taken after the block was installed in the graph
    blocked_at: usize,
}

fn script_label(s: &[Vec<Outcome>]) -> String {
    s.iter()
        .map(|o| {
            o.iter()
                .map(|x| match x {
                    Outcome::Ok => "ok".to_string(),
                    Outcome::Blocked(d) => format!("b{d}"),
                    Outcome::KeyTx => "key".to_string(),
                    Outcome::Retry => "retry".to_string(),
                })
                .collect::<Vec<_>>()
                .join(">")
        })
        .collect::<Vec<_>>()
        .join("|")
}

struct DepWorld {
    script: Vec<Vec<Outcome>>,
    dep: TxDependency,
    committed: PublishedCursor,
    txs: Vec<Mutex<TxW>>,
    /// set (Relaxed) before the corresponding release operation of the graph is called
    done: Vec<AtomicBool>,
    /// harness clock: tells a claim that *started* after a block was installed (a release of a
    /// blocked transaction) from a duplicate claim that was already under way when the block was
    /// installed (legal, and handled by the status check under the transaction lock)
    clock: AtomicUsize,
}

impl DepWorld {
    fn new(script: Vec<Vec<Outcome>>) -> Self {
        let n = script.len();
        Self {
            script,
            dep: TxDependency::new(n),
            committed: PublishedCursor::new(0),
            txs: (0..n).map(|_| Mutex::new(TxW { status: Ws::Initial, attempt: 0, blocker: None, waiting_for_commit: false, blocked_at: 0 })).collect(),
            done: (0..n).map(|_| AtomicBool::new(false)).collect(),
            clock: AtomicUsize::new(1),
        }
    }

    /// One iteration of the worker loop (`next()` / `execution_task` / `execute_task`'s dependency
    /// bookkeeping). Returns whether a transaction was claimed.
    fn worker_step(&self, handoff: &mut Option<usize>) -> bool {
        let from_handoff = handoff.is_some();
        let started = if from_handoff { usize::MAX } else { self.clock.fetch_add(1, SeqCst) };
        let claim = handoff.take().or_else(|| self.dep.next());
        let Some(t) = claim else {
            crate::oplog(format!("{:?} next() -> None", thread::current().id()));
            return false;
        };
        crate::oplog(format!("{:?} claims tx {t}{}", thread::current().id(), if from_handoff { " (handoff)" } else { "" }));
        let mut tx = self.txs[t].lock().unwrap();
        match tx.status {
            Ws::Initial | Ws::Conflict => {
                // The transaction was blocked and this claim started after the block was in place,
                // i.e. the graph *released* it: its blocker must be resolved by now.
                let released = started > tx.blocked_at;
                if let Some(d) = tx.blocker.filter(|_| released) {
                    assert!(
                        self.done[d].load(Relaxed),
                        "tx {t} was released although its current blocker {d} has not finished an execution (stale reverse edge?)"
                    );
                }
                if tx.waiting_for_commit && released {
                    assert!(
                        self.committed.get() >= t,
                        "tx {t} waited for its commit boundary but was released at committed prefix {}",
                        self.committed.get()
                    );
                }
                tx.status = Ws::Executing;
            }
            // duplicate claim of a transaction another claimer owns: must not release dependents
            Ws::Executing => return true,
            Ws::Executed => {
                drop(tx);
                self.dep.remove(t, false);
                crate::oplog(format!("{:?} remove({t}, false) done", thread::current().id()));
                return true;
            }
        }
        // "execute": the scripted outcome of this attempt; the tx lock is held throughout, as in
        // execute_task
        let outcome = self.script[t][tx.attempt.min(self.script[t].len() - 1)];
        crate::oplog(format!("{:?} executes tx {t} attempt {} -> {outcome:?} (committed {})", thread::current().id(), tx.attempt, self.committed.get()));
        tx.attempt += 1;
        tx.blocker = None;
        tx.waiting_for_commit = false;
        match outcome {
            Outcome::Ok => {
                self.done[t].store(true, Relaxed);
                *handoff = self.dep.remove(t, true);
                crate::oplog(format!("{:?} remove({t}, true) -> {:?}", thread::current().id(), *handoff));
                tx.status = Ws::Executed;
            }
            Outcome::Blocked(d) => {
                tx.blocker = Some(d);
                self.dep.add(t, Some(d));
                crate::oplog(format!("{:?} add({t}, Some({d})) done", thread::current().id()));
                tx.blocked_at = self.clock.fetch_add(1, SeqCst);
                tx.status = Ws::Conflict;
            }
            Outcome::KeyTx => {
                tx.waiting_for_commit = true;
                self.dep.key_tx(t, self.committed.reader());
                tx.blocked_at = self.clock.fetch_add(1, SeqCst);
                tx.status = Ws::Conflict;
            }
            Outcome::Retry => {
                self.dep.add(t, None);
                tx.status = Ws::Conflict;
            }
        }
        true
    }

    /// Commit the next transaction if it is executed. Returns whether it did.
    fn commit_step(&self, next: &mut usize) -> bool {
        if *next >= self.txs.len() {
            return false;
        }
        if self.txs[*next].lock().unwrap().status != Ws::Executed {
            return false;
        }
        crate::oplog(format!("{:?} commits tx {}", thread::current().id(), *next));
        self.committed.publish(*next + 1);
        self.dep.commit(*next);
        crate::oplog(format!("{:?} commit({}) done", thread::current().id(), *next));
        *next += 1;
        true
    }
}

fn dependency_models(v: &mut Vec<Model>) {
    use Outcome::*;
    let mut scripts: Vec<Vec<Vec<Outcome>>> = Vec::new();
    // two transactions
    for s1 in [vec![Ok], vec![Blocked(0), Ok], vec![KeyTx, Ok], vec![Blocked(0), KeyTx, Ok]] {
        scripts.push(vec![vec![Ok], s1]);
    }
    // three transactions
    for s1 in [vec![Ok], vec![Blocked(0), Ok], vec![KeyTx, Ok]] {
        for s2 in [vec![Blocked(0), Ok], vec![Blocked(1), Ok], vec![Blocked(0), Blocked(1), Ok], vec![KeyTx, Ok], vec![Blocked(1), KeyTx, Ok]] {
            scripts.push(vec![vec![Ok], s1.clone(), s2]);
        }
    }
    // conflicts without an unfinalised blocker (re-offered at once), alone and mixed
    scripts.push(vec![vec![Ok], vec![Retry, Ok]]);
    scripts.push(vec![vec![Retry, Ok], vec![Blocked(0), Ok]]);
    scripts.push(vec![vec![Ok], vec![Retry, Ok], vec![Blocked(1), Ok]]);
    scripts.push(vec![vec![Ok], vec![Blocked(0), Retry, Ok], vec![Retry, KeyTx, Ok]]);
    // four transactions, one chain
    scripts.push(vec![vec![Ok], vec![Blocked(0), Ok], vec![Blocked(1), Ok], vec![Blocked(2), Ok]]);
    for (claimers, steps) in [(2usize, 3usize), (2, 2), (3, 2)] {
        for script in &scripts {
            if claimers == 3 && script.len() != 3 {
                continue;
            }
            if steps == 2 && claimers == 2 && script.len() != 4 {
                continue;
            }
            let script = script.clone();
            let n = script.len();
            v.push(Model {
                id: format!("c16-dependency/claimers{claimers}x{steps}/[{}]", script_label(&script)),
                property: "C16",
            seq: false,
                threads: claimers + 2,
                describe: format!(
                    "{claimers} claimers each run {steps} iterations of the worker loop over {n} txs with scripted outcomes while one committer publishes whatever prefix is executed; then the loop is drained sequentially: every tx must still be on offer"
                ),
                run: Box::new(move || {
                    let w = Arc::new(DepWorld::new(script.clone()));
                    let n = w.txs.len();
                    let mut hs = Vec::new();
                    for _ in 0..claimers {
                        let w = w.clone();
                        hs.push(thread::spawn(move || {
                            let mut handoff = None;
                            for _ in 0..steps {
                                w.worker_step(&mut handoff);
                            }
                            handoff
                        }));
                    }
                    let committer = {
                        let w = w.clone();
                        thread::spawn(move || {
                            let mut next = 0;
                            while w.commit_step(&mut next) {}
                            next
                        })
                    };
                    let mut handoffs: Vec<usize> = Vec::new();
                    for h in hs {
                        if let Some(t) = h.join().unwrap() {
                            handoffs.push(t);
                        }
                    }
                    let mut next_commit = committer.join().unwrap();
                    // Sequential drain: one worker and the committer take turns. A transaction that
                    // is not executed and not on offer any more is an orphan.
                    let mut handoff = None;
                    let mut idle_rounds = 0;
                    loop {
                        let all = w.txs.iter().all(|t| t.lock().unwrap().status == Ws::Executed);
                        if all && next_commit == n {
                            break;
                        }
                        let mut progress = false;
                        if handoff.is_none() {
                            handoff = handoffs.pop();
                        }
                        if w.worker_step(&mut handoff) {
                            progress = true;
                        }
                        if w.commit_step(&mut next_commit) {
                            progress = true;
                            // "... or the committed prefix reaches the transaction": once
                            // commit(k) has returned, k+1 - unless it is executed or a claim of
                            // it is outstanding - must be on offer *now*, whatever blocked it
                            // (its own barrier, a predecessor edge nobody has released yet, a
                            // replaced blocker). The cursor is walked to the end; the other
                            // claims it hands out are kept as outstanding claims and processed
                            // by the worker afterwards, as a slow worker would.
                            let t = next_commit;
                            if t < n
                                && w.txs[t].lock().unwrap().status != Ws::Executed
                                && handoff != Some(t)
                                && !handoffs.contains(&t)
                            {
                                let mut offered = false;
                                while w.dep.index() < n {
                                    if let Some(c) = w.dep.next() {
                                        if c == t {
                                            offered = true;
                                        }
                                        handoffs.push(c);
                                    }
                                }
                                assert!(
                                    offered,
                                    "the committed prefix reached tx {t} (commit({}) returned) but tx {t} is not on offer",
                                    t - 1
                                );
                            }
                        }
                        if progress {
                            idle_rounds = 0;
                        } else {
                            idle_rounds += 1;
                            let pending: Vec<usize> =
                                (0..n).filter(|&i| w.txs[i].lock().unwrap().status != Ws::Executed).collect();
                            // `next()` moves the cursor by one index per call, so a released
                            // transaction behind a rewound cursor is reached after at most n calls
                            assert!(
                                idle_rounds < n + 2,
                                "transactions {pending:?} are neither executed nor re-offered (committed prefix {next_commit})"
                            );
                        }
                    }
                }),
            });
        }
    }
}

// ------------------------------------------------------------------------------------------------
// C17 WaitSlot: notifications are never lost
// ------------------------------------------------------------------------------------------------

fn wait_models(v: &mut Vec<Model>) {
    const T: Duration = Duration::from_secs(8);
    // one condition, one notifier: covers "before registration", "between the checks", "while parked"
    v.push(Model {
        id: "c17-wait/one-notifier".into(),
        property: "C17",
            seq: false,
        threads: 3,
        describe: "waiter registers and waits on a flag; one notifier publishes the flag then notifies".into(),
        run: Box::new(|| {
            let slot = Arc::new(WaitSlot::new());
            let flag = Arc::new(AtomicBool::new(false));
            let w = {
                let (slot, flag) = (slot.clone(), flag.clone());
                thread::spawn(move || {
                    slot.register_current_thread();
                    while !flag.load(Acquire) {
                        slot.wait_while(T, || !flag.load(Acquire));
                    }
                })
            };
            let n = {
                let (slot, flag) = (slot.clone(), flag.clone());
                thread::spawn(move || {
                    flag.store(true, Release);
                    slot.notify();
                })
            };
            n.join().unwrap();
            w.join().unwrap();
        }),
    });
    // two notifiers, two conditions (validation progress and abort)
    v.push(Model {
        id: "c17-wait/two-notifiers".into(),
        property: "C17",
            seq: false,
        threads: 4,
        describe: "waiter needs both conditions; two notifiers publish one each".into(),
        run: Box::new(|| {
            let slot = Arc::new(WaitSlot::new());
            let a = Arc::new(AtomicBool::new(false));
            let b = Arc::new(AtomicBool::new(false));
            let w = {
                let (slot, a, b) = (slot.clone(), a.clone(), b.clone());
                thread::spawn(move || {
                    slot.register_current_thread();
                    while !(a.load(Acquire) && b.load(Acquire)) {
                        slot.wait_while(T, || !(a.load(Acquire) && b.load(Acquire)));
                    }
                })
            };
            let n1 = {
                let (slot, a) = (slot.clone(), a.clone());
                thread::spawn(move || {
                    a.store(true, Release);
                    slot.notify();
                })
            };
            let n2 = {
                let (slot, b) = (slot.clone(), b.clone());
                thread::spawn(move || {
                    b.store(true, Release);
                    slot.notify();
                })
            };
            n1.join().unwrap();
            n2.join().unwrap();
            w.join().unwrap();
        }),
    });
    // two rounds: the waiter consumes one notification, then waits for the next condition
    v.push(Model {
        id: "c17-wait/two-rounds".into(),
        property: "C17",
            seq: false,
        threads: 3,
        describe: "counter goes 0 -> 1 -> 2 with a notification after each step; the waiter waits for 1, then for 2".into(),
        run: Box::new(|| {
            let slot = Arc::new(WaitSlot::new());
            let c = Arc::new(AtomicUsize::new(0));
            let w = {
                let (slot, c) = (slot.clone(), c.clone());
                thread::spawn(move || {
                    slot.register_current_thread();
                    for want in 1..=2usize {
                        while c.load(Acquire) < want {
                            slot.wait_while(T, || c.load(Acquire) < want);
                        }
                    }
                })
            };
            let n = {
                let (slot, c) = (slot.clone(), c.clone());
                thread::spawn(move || {
                    for step in 1..=2usize {
                        c.store(step, Release);
                        slot.notify();
                    }
                })
            };
            n.join().unwrap();
            w.join().unwrap();
        }),
    });
    // the condition is published under a lock (as validate() does with the transaction state)
    v.push(Model {
        id: "c17-wait/locked-condition".into(),
        property: "C17",
            seq: false,
        threads: 3,
        describe: "the condition lives under a mutex (transaction status); the notifier updates it under the lock, then notifies".into(),
        run: Box::new(|| {
            let slot = Arc::new(WaitSlot::new());
            let st = Arc::new(Mutex::new(false));
            let w = {
                let (slot, st) = (slot.clone(), st.clone());
                thread::spawn(move || {
                    slot.register_current_thread();
                    while !*st.lock().unwrap() {
                        slot.wait_while(T, || !*st.lock().unwrap());
                    }
                })
            };
            let n = {
                let (slot, st) = (slot.clone(), st.clone());
                thread::spawn(move || {
                    *st.lock().unwrap() = true;
                    slot.notify();
                })
            };
            n.join().unwrap();
            w.join().unwrap();
        }),
    });
}
