//! loom-models: weak-memory exploration of the production cursor / frontier / timestamp cells,
//! dependency graph and wait slot, compiled by *source inclusion* from /repo (no copies) against
//! the loom backend of grevm-verif-rt.
//!
//!   loom-models list
//!   loom-models run <model-id> [--preemption-bound N] [--max-seconds S]
//!
//! One process runs one model; the driver script fans models out over the cores.
#![allow(dead_code, unused_macros, unused_imports, missing_docs, unreachable_pub)]

// the hooks in the included sources expand to nothing here (every loom atomic/lock access is a
// scheduling point already)
macro_rules! vpoint {
    ($id:ident) => {};
}
macro_rules! vobs {
    ($kind:ident, $txid:expr, $a:expr, $b:expr, $c:expr) => {};
}

pub(crate) type TxId = usize;

mod scheduler {
    #[path = "/repo/src/scheduler/cursor.rs"]
    pub(crate) mod cursor;
    #[path = "/repo/src/scheduler/context.rs"]
    pub(crate) mod context;
    #[path = "/repo/src/scheduler/wait.rs"]
    pub(crate) mod wait;

    pub(crate) use cursor::PublishedCursorReader;

    pub(crate) mod models;
}

#[path = "/repo/src/tx_dependency.rs"]
mod tx_dependency;

use std::sync::atomic::{AtomicU64, Ordering};
use std::time::{Duration, Instant};

pub(crate) static ITERATIONS: AtomicU64 = AtomicU64::new(0);
/// per-iteration operation log of the drivers (printed when an iteration fails)
pub(crate) static OPLOG: std::sync::Mutex<Vec<String>> = std::sync::Mutex::new(Vec::new());

static DEADLINE_MS: AtomicU64 = AtomicU64::new(0);
static STARTED: std::sync::OnceLock<Instant> = std::sync::OnceLock::new();
static INCOMPLETE: std::sync::atomic::AtomicBool = std::sync::atomic::AtomicBool::new(false);

/// For sequential enumerations: the time cap given on the command line has passed.
pub(crate) fn past_deadline() -> bool {
    let d = DEADLINE_MS.load(Ordering::Relaxed);
    d != 0 && STARTED.get().is_some_and(|s| s.elapsed().as_millis() as u64 >= d)
}
pub(crate) fn mark_incomplete() {
    INCOMPLETE.store(true, Ordering::Relaxed);
}

pub(crate) fn oplog(s: String) {
    OPLOG.lock().unwrap().push(s);
}

pub(crate) struct Model {
    pub id: String,
    pub property: &'static str,
    pub threads: usize,
    pub describe: String,
    pub run: Box<dyn Fn() + Send + Sync + 'static>,
    /// a sequential enumeration that starts one (single-threaded) loom execution per case itself
    /// and counts them in `ITERATIONS`; not wrapped in `Builder::check`
    pub seq: bool,
}

fn main() {
    let args: Vec<String> = std::env::args().collect();
    match args.get(1).map(|s| s.as_str()) {
        Some("list") => {
            let models = scheduler::models::all();
            for m in &models {
                println!("{}\t{}\t{}\t{}", m.property, m.id, m.threads, m.describe);
            }
        }
        Some("run") => {
            let id = args.get(2).expect("model id");
            let bound: Option<usize> = args
                .iter()
                .position(|a| a == "--preemption-bound")
                .and_then(|i| args.get(i + 1))
                .and_then(|s| s.parse().ok());
            let max_s: Option<u64> = args
                .iter()
                .position(|a| a == "--max-seconds")
                .and_then(|i| args.get(i + 1))
                .and_then(|s| s.parse().ok());
            let Some(m) = scheduler::models::find(id) else {
                eprintln!("no such model {id}");
                std::process::exit(2);
            };
            if std::env::var_os("VERIF_PANIC_TRACE").is_none() {
                // loom can abort the process while unwinding out of a failed execution; record
                // the *first* panic (the actual failure) on stderr so that the driver can tell a
                // model failure from a crash
                static FIRST: std::sync::atomic::AtomicBool = std::sync::atomic::AtomicBool::new(true);
                std::panic::set_hook(Box::new(|info| {
                    if FIRST.swap(false, Ordering::SeqCst) {
                        let msg = info
                            .payload()
                            .downcast_ref::<String>()
                            .cloned()
                            .or_else(|| info.payload().downcast_ref::<&str>().map(|s| s.to_string()))
                            .unwrap_or_else(|| "panic".into());
                        eprintln!("LOOM-FAILURE: {}", msg.replace('\n', " "));
                        for l in OPLOG.lock().unwrap().iter() {
                            eprintln!("  op: {l}");
                        }
                    }
                }));
            }
            let started = Instant::now();
            let _ = STARTED.set(started);
            DEADLINE_MS.store(max_s.map_or(0, |s| s * 1000), Ordering::Relaxed);
            let mut b = loom::model::Builder::new();
            b.preemption_bound = bound;
            b.max_branches = 20_000;
            b.max_duration = max_s.map(Duration::from_secs);
            b.log = false;
            b.checkpoint_interval = 2000;
            let run = m.run;
            let seq = m.seq;
            let result = std::panic::catch_unwind(std::panic::AssertUnwindSafe(|| {
                if seq {
                    run();
                } else {
                    b.check(move || {
                        ITERATIONS.fetch_add(1, Ordering::Relaxed);
                        OPLOG.lock().unwrap().clear();
                        run();
                    })
                }
            }));
            let iterations = ITERATIONS.load(Ordering::Relaxed);
            let wall = started.elapsed().as_secs_f64();
            let timed_out = max_s.is_some_and(|s| wall >= s as f64) || INCOMPLETE.load(Ordering::Relaxed);
            let out = match result {
                Ok(()) => serde_json::json!({
                    "model": id, "property": m.property, "ok": true, "iterations": iterations,
                    "preemption_bound": bound, "wall_s": wall, "completed": !timed_out,
                    "threads": m.threads, "describe": m.describe,
                }),
                Err(p) => {
                    let msg = p
                        .downcast_ref::<String>()
                        .cloned()
                        .or_else(|| p.downcast_ref::<&str>().map(|s| s.to_string()))
                        .unwrap_or_else(|| "panic".into());
                    serde_json::json!({
                        "model": id, "property": m.property, "ok": false, "iterations": iterations,
                        "preemption_bound": bound, "wall_s": wall, "completed": false,
                        "threads": m.threads, "describe": m.describe, "failure": msg,
                    })
                }
            };
            println!("{out}");
            std::process::exit(if out["ok"] == true { 0 } else { 1 });
        }
        Some("replay") => {
            // a loom failure is reproduced by re-running the model (the exploration is deterministic)
            let path = args.get(2).expect("replay file");
            let v: serde_json::Value = serde_json::from_slice(&std::fs::read(path).expect("read")).expect("json");
            let id = v["job"].as_str().expect("job").to_string();
            let bound = v["preemption_bound"].as_u64().map(|b| b.to_string());
            let exe = std::env::current_exe().unwrap();
            let mut cmd = std::process::Command::new(exe);
            cmd.arg("run").arg(&id);
            if let Some(b) = bound {
                cmd.arg("--preemption-bound").arg(b);
            }
            let out = cmd.output().expect("run");
            let line = String::from_utf8_lossy(&out.stdout);
            let r: serde_json::Value = line
                .lines()
                .filter_map(|l| serde_json::from_str(l.trim()).ok())
                .last()
                .unwrap_or(serde_json::json!({"ok": true}));
            if r["ok"] == false {
                println!("REPRODUCED key=loom-failure detail={}", r["failure"].as_str().unwrap_or("").replace('\n', " "));
                std::process::exit(1);
            }
            // a failing exploration can abort the process while unwinding (no result line): the
            // first panic was recorded on stderr by the hook
            let err = String::from_utf8_lossy(&out.stderr);
            if let Some(l) = err.lines().find(|l| l.starts_with("LOOM-FAILURE:")) {
                println!("REPRODUCED key=loom-failure detail={}", l["LOOM-FAILURE:".len()..].trim());
                std::process::exit(1);
            }
            println!("NOT-REPRODUCED");
        }
        _ => {
            eprintln!("usage: loom-models list | run <id> [--preemption-bound N] [--max-seconds S] | replay <file>");
            std::process::exit(2);
        }
    }
}
