"""loom side of bin/check: runs the models of one property (C15-C17), one process per model."""
import json, os, subprocess, sys, time
from concurrent.futures import ThreadPoolExecutor


def plan(prop, tier, models):
    """model id -> list of (preemption bound or None, max seconds)"""
    out = {}
    for m in models:
        mid, threads = m["id"], m["threads"]
        if tier == "quick":
            if mid.startswith("c17-wait"):
                b = [(None, 30)] if threads <= 3 else [(3, 30)]
            elif mid.startswith("c15-cursor"):
                b = [(None, 30)] if threads <= 3 else [(2, 30)]
            elif mid.startswith("c15-timestamps"):
                b = [(3, 30)] if threads <= 4 else [(2, 30)]
            elif mid.startswith("c15-protocol"):
                # scripts of length 5 are 70 % of the family's cost: bound 1 here, 2-3 in the thorough tier
                b = [(1, 30)] if "/len5/" in mid else [(2, 30)]
            elif mid.startswith("c15-frontier-seq"):
                # sequential enumerations (one single-threaded loom execution per case); the largest
                # range is left to the thorough tier
                b = [] if mid.endswith("/n200") else [(None, 60)]
            elif mid.startswith("c15-frontier"):
                # the 5-thread models do not finish bound 2 within the quick budget (reported as
                # incomplete before); bound 1 completes, bound 2-3 is the thorough tier
                b = [(2, 30)] if threads <= 4 else [(1, 30)]
            else:  # c16
                # three claimers on the retry scripts: thorough only
                b = [] if ("claimers3" in mid and "retry" in mid) else [(2, 50)]
        else:
            if mid.startswith("c17-wait"):
                b = [(None, 600)]
            elif mid.startswith("c15-cursor"):
                b = [(None, 600)] if threads <= 3 else [(4, 900)]
            elif mid.startswith("c15-timestamps"):
                b = [(4, 900)]
            elif mid.startswith("c15-protocol"):
                b = [(3, 300)]
            elif mid.startswith("c15-frontier-seq"):
                b = [(None, 600)]
            elif mid.startswith("c15-frontier"):
                b = [(3, 900)] if threads <= 4 else [(2, 900)]
            else:
                # the 3-claimer models do not finish bound 3 (the 2-claimer ones do, in 3-4 min each)
                b = [(3, 420)]
        out[mid] = b
    return out


def main(chk, prop, tier, budget):
    t0 = time.time()
    build_s = chk.build(True)
    exe = chk.LOOM
    r = subprocess.run([exe, "list"], capture_output=True, text=True, env=chk.ENV)
    if r.returncode != 0:
        chk.die("loom-models list failed")
    models = []
    for line in r.stdout.splitlines():
        p, mid, threads, desc = line.split("\t")
        if p == prop:
            models.append({"id": mid, "threads": int(threads), "describe": desc})
    if not models:
        chk.die(f"no loom models for {prop}")
    pl = plan(prop, tier, models)
    tasks = [(m, b, s) for m in models for (b, s) in pl[m["id"]]]

    def run_one(task):
        m, bound, secs = task
        cmd = [exe, "run", m["id"], "--max-seconds", str(secs)]
        if bound is not None:
            cmd += ["--preemption-bound", str(bound)]
        try:
            p = subprocess.run(cmd, capture_output=True, text=True, env=chk.ENV, timeout=secs * 3 + 60)
        except subprocess.TimeoutExpired:
            return {"model": m["id"], "machinery": f"timeout after {secs * 3 + 60}s", "preemption_bound": bound}
        res = None
        for line in p.stdout.splitlines():
            line = line.strip()
            if line.startswith("{"):
                try:
                    res = json.loads(line)
                except Exception:
                    pass
        if res is None:
            fail = [l for l in p.stderr.splitlines() if l.startswith("LOOM-FAILURE:")]
            if fail:
                res = {"model": m["id"], "ok": False, "failure": fail[0][len("LOOM-FAILURE:"):].strip(), "iterations": 0,
                       "preemption_bound": bound, "completed": False, "threads": m["threads"], "describe": m["describe"], "wall_s": 0}
            else:
                return {"model": m["id"], "machinery": f"exit {p.returncode}: {p.stderr[-300:]}", "preemption_bound": bound}
        res["preemption_bound"] = bound
        return res

    with ThreadPoolExecutor(max_workers=chk.NPROC) as ex:
        results = list(ex.map(run_one, tasks))
    for r in results:
        if "machinery" in r:
            chk.die(f"loom model {r['model']}: {r['machinery']}")
    violation = None
    for r in results:
        if not r["ok"]:
            violation = {"engine": "loom", "job": r["model"], "preemption_bound": r["preemption_bound"], "deviations": None,
                         "detail": r.get("failure", "loom failure"), "key": "loom-failure", "hang": False, "hang_is_violation": True,
                         "family": r["model"].split("/")[0], "describe": r.get("describe")}
            break
    total = sum(r["iterations"] for r in results)
    completed = [r for r in results if r["ok"] and r.get("completed")]
    samples = []
    for r in sorted(results, key=lambda r: -r["iterations"])[:6]:
        samples.append({"model": r["model"], "threads": r.get("threads"), "preemption_bound": r["preemption_bound"],
                        "iterations": r["iterations"], "completed": r.get("completed"), "what": r.get("describe")})
    cov = {
        "evaluations": total,
        "distinct_nontrivial": len([r for r in results if r["iterations"] > 1]),
        "rule": ("one evaluation = one loom iteration = one complete execution of a model under one schedule and one choice of the reads-from relation "
                 "permitted by the declared orderings (C11); loom enumerates them exhaustively within the preemption bound given per model (null = unbounded). "
                 "distinct_nontrivial counts the distinct models whose exploration had more than one iteration (i.e. the threads really raced)"),
        "samples": samples,
        "exhaustive": violation is None and len(completed) == len(results),
        "models": len(results),
        "models_completed_within_bound": len(completed),
        "per_model": [{"model": r["model"], "preemption_bound": r["preemption_bound"], "iterations": r["iterations"],
                       "completed": r.get("completed"), "wall_s": round(r.get("wall_s", 0), 2)} for r in results],
        "source_included_files": ["/repo/src/scheduler/cursor.rs", "/repo/src/scheduler/context.rs", "/repo/src/scheduler/wait.rs", "/repo/src/tx_dependency.rs"],
        "build_s": round(build_s, 1),
    }
    ev = {"property_id": prop, "tier": tier, "seed": chk.SEED, "level": chk.PROPS[prop][0], "coverage": cov,
          "assumptions": ["loom's implementation of the C11 memory model; preemption bound per model as listed",
                          "the drivers around the production functions are minimal re-statements of the worker / committer / coordinator loops",
                          "park has no timeout: a lost wake-up is a loom deadlock"],
          "wall_s": round(time.time() - t0, 2), "violations": 0 if violation is None else 1}
    return chk.finish(prop, tier, ev, violation, [])
