# Table read by bin/gen-manifest. `claim(id, level, technique, text, design_ref, note)`.
claim("C01", "exploration",
      "stateless model checking: deviation-bounded DFS over schedules of the real scheduler x bounded block/config enumeration, oracle = in-order stock revm",
      "Every execution of the real Scheduler with at most d deviations from a canonical fair schedule (coarse: protocol steps, fine: every atomic/lock operation) is enumerated for a family of small, conflict-forcing blocks across specs, nonce-check settings and worker counts; outcomes, error and the complete bundle (reverts, sizes) are compared with an independent in-order stock-revm run. Universally quantified over schedules within the bound, which unit tests can only sample.",
      "DESIGN.md §4 C01", SCHED_NOTE)

_pending = "check not built yet in this round; tracked in DESIGN.md §10 (build order)"
for pid in ["C02","C03","C04","C05","C06","C07","C08","C09","C10","C11","C12","C13","C14","C15","C16","C17"]:
    NOT_APPLICABLE[pid] = _pending
