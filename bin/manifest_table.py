# Table read by bin/gen-manifest. `claim(id, level, technique, text, design_ref, note)`.
claim("C01", "exploration",
      "stateless model checking: deviation-bounded DFS over schedules of the real scheduler x bounded block/config enumeration, oracle = in-order stock revm",
      "Every execution of the real Scheduler with at most d deviations from a canonical fair schedule (coarse: protocol steps, fine: every atomic/lock operation) is enumerated for a family of small, conflict-forcing blocks across specs, nonce-check settings and worker counts; outcomes, error and the complete bundle (reverts, sizes) are compared with an independent in-order stock-revm run. Universally quantified over schedules within the bound, which unit tests can only sample.",
      "DESIGN.md §4 C01", SCHED_NOTE)

claim("C02", "exploration",
      "stateless model checking: deviation-bounded DFS over schedules of the real scheduler, oracle on every ordered-commit event vs. the in-order reference",
      "Every commit event of every explored execution (hooked inside ordered commit: txid, ExecutionResult, touched-account delta after fee folding, committed cursor) is compared with the corresponding step of an in-order stock-revm run, so a stale speculative result that is later overwritten cannot be masked by the end state. Conflict-heavy drivers, coarse bound up to 3-4 and fine bound up to 2-3.",
      "DESIGN.md §4 C02", SCHED_NOTE)
claim("C03", "exploration",
      "bounded exhaustive enumeration of blocks over a validity alphabet x configurations x deviation-bounded schedule DFS, oracle = in-order stock revm",
      "All blocks of length <= 3 over 14 validity templates (nonce low/high/overflow, funds, intrinsic gas, fee below base fee, sender with code, validity made or destroyed by an earlier in-block transaction) in every placement, nonce check on/off, parallel / below-threshold / forced-sequential paths; Skipped(e) must carry exactly the reference's InvalidTransaction value and the bundle must equal the reference's.",
      "DESIGN.md §4 C03", SCHED_NOTE)
claim("C04", "fault_enumeration",
      "fault enumeration: every database key read (in order or only by stale attempts) x {persistent, fail-once} x deviation-bounded schedule DFS, oracle = in-order reference on the same faulty database",
      "For each driver block every database key the in-order run reads plus the keys only a stale speculative attempt reads is made to fail persistently or once; under every schedule within the bound the result must be the reference's error (same value and index, exact outcome/state prefix), and a fault on a key in-order execution never reads must stay invisible. The stale-attempt-at-head window (finding F2, now fixed) is explored at attempt granularity with bound 4-5.",
      "DESIGN.md §4 C04, §5 F2", SCHED_NOTE)
claim("C05", "exploration",
      "stateless model checking with deadlock/livelock detection: deviation-bounded DFS at fine granularity, parks without timeout",
      "Every explored execution must return: a parked coordinator has no timeout under the controlled scheduler, so a lost wake-up is a detected deadlock and a spinning worker a detected livelock (step cap under a fair suffix). Dependency shapes (independent, chain, fan-in, late conflict, error parked behind the commit boundary, nonce mismatch at commit, fatal error, database panic at the j-th call for every j) x 1-3 workers; the returned result must also be the reference's, and an injected panic must reach the caller unchanged.",
      "DESIGN.md §4 C05", SCHED_NOTE)

claim("C10", "model_checking",
      "explicit-state BFS over operation histories on the real ParallelState/revm State pair (canonical-digest dedup) + complete interleaving enumeration of cache-filling reads racing commit",
      "States are (ParallelState, revm State) pairs rebuilt by replaying operation histories over a 15-operation alphabet (real journal output of create/destroy/recreate/create+destroy/empty-touch/storage churn, balance increments and drains, transition merges and bundle extraction in both retention modes, explicit reads); after every transition operation results, transition states, bundles and every value readable through the database interface must agree with revm's State. All traces are executed on the implementation. The concurrent-reader clause is decided by enumerating *all* interleavings of one or two cache-filling readers with a committing destroy/recreate/write/empty-touch (finding F1, now fixed).",
      "DESIGN.md §4 C10, §5 F1",
      "Trusted: revm_database::State through its Database (&mut) interface as the reference (its &self storage_ref falls through to the database for destroyed accounts and is not used); shuttle-engine runtime for the race part; bounds = history depth and alphabet as reported.")

_pending = "check not built yet in this round; tracked in DESIGN.md §10 (build order)"
for pid in ["C06","C07","C08","C09","C11","C12","C13","C14","C15","C16","C17"]:
    NOT_APPLICABLE[pid] = _pending
