# Table read by bin/gen-manifest. `claim(id, level, technique, text, design_ref, note)`.
claim("C01", "exploration",
      "stateless model checking: deviation-bounded DFS over schedules of the real scheduler x bounded block/config enumeration, oracle = in-order stock revm",
      "Every execution of the real Scheduler with at most d deviations from a canonical fair schedule (coarse: protocol steps, fine: every atomic/lock operation) is enumerated for a family of small, conflict-forcing blocks across specs, nonce-check settings and worker counts; outcomes, error and the complete bundle (reverts, sizes) are compared with an independent in-order stock-revm run. Universally quantified over schedules within the bound, which unit tests can only sample.",
      "DESIGN.md §4 C01", SCHED_NOTE)

claim("C02", "exploration",
      "stateless model checking: deviation-bounded DFS over schedules of the real scheduler, oracle on every ordered-commit event vs. the in-order reference",
      "Every commit event of every explored execution (hooked inside ordered commit: txid, ExecutionResult, touched-account delta after fee folding, committed cursor) is compared with the corresponding step of an in-order stock-revm run, so a stale speculative result that is later overwritten cannot be masked by the end state. Conflict-heavy drivers, coarse bound up to 3-4 and fine bound up to 2-3.",
      "DESIGN.md §4 C02", SCHED_NOTE)
claim("C03", "exploration",
      "bounded exhaustive enumeration of blocks over a validity alphabet x configurations x deviation-bounded schedule DFS, oracle = in-order stock revm",
      "All blocks of length <= 3 over 14 validity templates (nonce low/high/overflow, funds, intrinsic gas, fee below base fee, sender with code, validity made or destroyed by an earlier in-block transaction) in every placement, nonce check on/off, parallel / below-threshold / forced-sequential paths; Skipped(e) must carry exactly the reference's InvalidTransaction value and the bundle must equal the reference's.",
      "DESIGN.md §4 C03", SCHED_NOTE)
claim("C04", "fault_enumeration",
      "fault enumeration: every database key read (in order or only by stale attempts) x {persistent, fail-once} x deviation-bounded schedule DFS, oracle = in-order reference on the same faulty database",
      "For each driver block every database key the in-order run reads plus the keys only a stale speculative attempt reads is made to fail persistently or once; under every schedule within the bound the result must be the reference's error (same value and index, exact outcome/state prefix), and a fault on a key in-order execution never reads must stay invisible. The stale-attempt-at-head window (finding F2, now fixed) is explored at attempt granularity with bound 4-5.",
      "DESIGN.md §4 C04, §5 F2", SCHED_NOTE)
claim("C05", "exploration",
      "stateless model checking with deadlock/livelock detection: deviation-bounded DFS (fine, coarse, coordinator-focus granularities; plain and sticky cost model), parks without timeout",
      "Every explored execution must return: a parked coordinator has no timeout under the controlled scheduler, so a lost wake-up is a detected deadlock and a spinning worker a detected livelock (step cap under a fair suffix). Dependency shapes (independent, chain, fan-in, late conflict, error parked behind the commit boundary, nonce mismatch at commit, fatal error, database panic at the j-th call for every j) x 1-3 workers; the returned result must also be the reference's, and an injected panic must reach the caller unchanged.",
      "DESIGN.md §4 C05", SCHED_NOTE)

claim("C10", "model_checking",
      "explicit-state BFS over operation histories on the real ParallelState/revm State pair (canonical-digest dedup) + complete interleaving enumeration of cache-filling reads racing commit",
      "States are (ParallelState, revm State) pairs rebuilt by replaying operation histories over a 15-operation alphabet (real journal output of create/destroy/recreate/create+destroy/empty-touch/storage churn, balance increments and drains, transition merges and bundle extraction in both retention modes, explicit reads); after every transition operation results, transition states, bundles and every value readable through the database interface must agree with revm's State. All traces are executed on the implementation. The concurrent-reader clause is decided by enumerating *all* interleavings of one or two cache-filling readers with a committing destroy/recreate/write/empty-touch (finding F1, now fixed).",
      "DESIGN.md §4 C10, §5 F1",
      "Trusted: revm_database::State through its Database (&mut) interface as the reference (its &self storage_ref falls through to the database for destroyed accounts and is not used); shuttle-engine runtime for the race part; bounds = history depth and alphabet as reported.")

claim("C07", "exploration",
      "bounded exhaustive enumeration of beneficiary roles x fee settings x blocks x deviation-bounded schedule DFS, oracle = in-order stock revm (+ commit-event oracle on reader drivers)",
      "The fee recipient is made absent, a plain account, a sender, a recipient, a contract with storage that is called, created in the block, self-destructing and near-overflow, under legacy/zero/EIP-1559 fees on pre- and post-London rule sets; every block of length 2-3 over payers, role actions and coinbase readers (BALANCE, EXTCODESIZE, SLOAD via call) is run under all schedules within the bound and compared with in-order revm, including the beneficiary's bundle entry; reader drivers additionally check the beneficiary delta of every commit event.",
      "DESIGN.md §4 C07", SCHED_NOTE)
claim("C08", "exploration",
      "bounded exhaustive enumeration of destroy/create/write/read sequences x fork rule sets x deviation-bounded schedule DFS, oracle = in-order stock revm",
      "All sequences of length 2-3 over 14 lifecycle templates (destroy, recreate, create+destroy in one tx, write, balance/code/slot probes, EIP-161 touch, inner-frame revert around a destroy, CREATE deployment) on an address with pre-existing storage and fresh addresses, on Homestead..Osaka rule sets; the probes store what they observed so the observations are part of the compared bundle. The sharpest reader-races-destroyer blocks get coarse bound 2-3 and fine bound 1-2.",
      "DESIGN.md §4 C08", SCHED_NOTE)
claim("C09", "exploration",
      "bounded exhaustive enumeration of deployment (create transaction, CREATE, CREATE2; fresh and pre-existing targets; Frontier..Prague) / EIP-7702 authorisation (valid and invalid tuples) sequences x deviation-bounded schedule DFS, oracle = in-order stock revm",
      "All sequences of length 2-3 over 16 templates (7702 set, re-point, clear, wrong nonce, two authorities, repeated authority, self-authorisation, calls into and probes of the delegated account, transactions sent from it, CREATE2 deployment plus calls/probes of the created contract) with authorisation nonces tracked per block; Code and Basic are versioned separately in grevm, so re-point/clear-then-call drivers are also explored at fine granularity.",
      "DESIGN.md §4 C09", SCHED_NOTE)
claim("C11", "exploration",
      "bounded exhaustive enumeration of blocks mixing custom-precompile calls with ordinary transactions x deviation-bounded schedule DFS, oracle = in-order stock revm running the same precompile bodies behind the harness's own facade and adapter (independent of src/precompile.rs)",
      "Eleven capability-restricted test precompiles (read twice, write, read-write-read, set balance, mutate-in-static-and-ignore, ignore-a-fault, map-a-read-fault-to-a-halt, map-a-refused-write-to-a-fatal-error, write-then-halt, fatal-if-zero, panic), each written once against a four-method facade trait and installed in grevm through the production facade/adapter and in the reference through an independent re-statement of the contract over stock Alloy, are called directly, through CALL/STATICCALL/CALL-then-REVERT relays and interleaved with ordinary writes to the same slots, balances and the beneficiary; outcomes (which carry the precompiles' own read observations and gas) and bundles must equal the in-order reference on both the parallel and the sequential path.",
      "DESIGN.md §4 C11", SCHED_NOTE)
claim("C14", "exploration",
      "stateless model checking: deviation-bounded DFS over 2-3 concurrent entry-point callers of one Scheduler",
      "Two or three tasks call execute / parallel_execute / fallback_sequential on one shared scheduler (empty and state-changing blocks, parallel and forced-sequential configuration) under every schedule within fine bound 2-3 / coarse bound 3-4, which includes all successive orders: exactly one call wins, all others get the once-only error, and outcomes/bundle equal one in-order application. take_result_and_state before any execution is checked to be empty and untouched.",
      "DESIGN.md §4 C14", SCHED_NOTE)
claim("C15", "exploration",
      "loom: exhaustive interleavings x C11-permitted stale reads of the source-included production cursor/frontier/timestamp code, plus sequential bounded-exhaustive enumeration of completion orders on index ranges around machine-word sizes",
      "RewindableCursor (1-2 claimers + 1-2 rewinders, every start/target), the first-unexecuted frontier through SchedulerContext (every split/order of 3 completions over 2-3 publishers plus a sampling reader; visibility probed with Relaxed flags) and the validation/rewind/finality timestamp protocol are explored by loom on the production functions (no re-implementation): no claim at or beyond the limit, every rewound index offered again, the frontier never passes an invisible execution and always catches up, a validation predating a covering rewind never yields finality.",
      "DESIGN.md §4 C15", LOOM_NOTE)
claim("C16", "exploration",
      "loom: exhaustive interleavings of the source-included TxDependency under scripted execution outcomes, then a sequential drain that detects orphans and checks after every commit(k) that k+1 is on offer at once",
      "2-3 claimers run bounded iterations of the worker loop (next / duplicate-claim handling / remove / add / key_tx with scripted per-attempt outcomes) against one committer publishing the committed cursor, for every outcome script over 2-4 transactions; afterwards the loop is drained sequentially: any transaction that is neither executed nor on offer is an orphan. A release of a blocked transaction by the graph requires its current blocker to be resolved (stale reverse edges), ownership is exclusive under the transaction lock.",
      "DESIGN.md §4 C16", LOOM_NOTE)
claim("C17", "exploration",
      "loom: complete (unbounded) exploration of the source-included WaitSlot with park without timeout",
      "One waiter (register; loop wait_while) against one or two notifiers (publish condition, notify), one or two conditions, two rounds, condition under a mutex; park has no timeout so a lost wake-up is a loom deadlock. The models found a store-buffering lost wake-up on the unchanged tree (finding F3, fixed). The three production notifiers (validate, the finality loop, cancel) are covered under SC by C05, including its sticky-coordinator family (a deviation suspends the passed-over thread), which is what reports a misplaced notification in the finality loop (seeded/C17d).",
      "DESIGN.md §4 C17, §5 F3", LOOM_NOTE)

claim("C06", "exploration",
      "relational check: bounded exhaustive enumeration of blocks x policies x the configuration set, parallel members under deviation-bounded schedule DFS; oracle = the forced-sequential member (+ stock revm when the policies are off)",
      "For every block (general alphabet, the C12 call shapes, the C13 reserve blocks) and each of the four delegated-account policy combinations, every member of {1..3 workers} x {min_parallel_txs 0, n, n+1} x {execute, parallel_execute(Some(k)), fallback_sequential} must produce the observation (outcomes, bundle, Ok/Err, failing index) of the forced-sequential run of the same block and policy; policy-off members must also equal stock revm. This is the only oracle available for policy-enabled execution, for which stock revm is no reference.",
      "DESIGN.md §4 C06", SCHED_NOTE)
claim("C12", "exploration",
      "bounded exhaustive enumeration of call shapes x specs x guard on/off x designator present/absent, plus a 256-opcode sweep x stack priming (zeros / empty / huge operands) x gas limit (30 000 / 200 000 / reservoir) and fixed-gas relays (5 000..250 000 gas forwarded to a factory and to a delegated account), oracle = stock revm (resp. stock revm with the delegate target's create opcode undefined)",
      "19 programs reaching CREATE/CREATE2 (top-level create, ordinary contract, nested call, delegatecall, staticcall, delegated EOA top-level and nested, delegated EOA calling an ordinary factory, ordinary contract delegatecalling the delegate's code, delegated create followed by the account's own transaction, in-block delegation) on seven rule sets (Byzantium..Amsterdam), guard on and off, designators present and absent, sequential and parallel path. Where no create runs in a delegated context the result must be bit-identical to stock revm; otherwise identical to stock revm on the same program with the delegate target's create opcode replaced by an undefined opcode, modulo the halt reason. The opcode sweep executes every opcode byte after a fixed stack priming with the guard on against stock revm (result, gas, output).",
      "DESIGN.md §4 C12", SCHED_NOTE)
claim("C13", "exploration",
      "bounded exhaustive enumeration of reserve blocks (debit kind x variant {plain, inner revert, credit before, authorisation in the transaction, funded by an earlier transaction, refunded, reached through an ordinary contract, two debits, create transaction, valued self-call of the delegated account} x boundary balance x number of later own transactions) x policy x paths x deviation-bounded schedule DFS, oracle = independent evaluation of the rule + stock revm + forced-sequential relation",
      "The rule (violation iff a surviving net debit leaves the delegated account below min(balance before the first debit, saturating sum of the maximum costs of its later own transactions)) is evaluated independently from the block parameters. No violation or policy off: the observation must equal stock revm. Violation: a charged top-level Revert with empty output and the gas the execution spent, no state but nonce/fee/authorisation effects, the account keeps its balance, its later transactions all execute, and the observation equals the forced-sequential run. Includes exact / exact-1 boundary balances, inner reverts, credits before the debit, refunded debits, authorisation in the debiting transaction and a balance that only an earlier in-block transfer provides (stale speculative read).",
      "DESIGN.md §4 C13", SCHED_NOTE)

_pending = "check not built yet in this round; tracked in DESIGN.md §10 (build order)"
for pid in []:
    NOT_APPLICABLE[pid] = _pending
