# Hand-written mutants of Galxe/grevm for calibrating /verif (not independent seeds: written by the
# author of the checks). Each: name, edits [(file, old, new)], props to run.
S = "src/scheduler.rs"
I = "src/incarnation_db.rs"
OC = "src/scheduler/ordered_commit.rs"
FB = "src/scheduler/fallback.rs"
CT = "src/scheduler/control.rs"
TD = "src/tx_dependency.rs"
CX = "src/scheduler/context.rs"
CU = "src/scheduler/cursor.rs"
RW = "src/beneficiary/reward.rs"
HI = "src/beneficiary/history.rs"
PS = "src/parallel_state.rs"
BU = "src/bundle.rs"
PC = "src/precompile.rs"
HD = "src/delegated_safety/handler.rs"
RS = "src/delegated_safety/reserve.rs"
WT = "src/scheduler/wait.rs"

M = [
 dict(name="S03-finality-lower-ts-not-carried", props=["C01", "C02"], edits=[(S, "                lower_ts = effective_lower_ts;\n", "")]),
 dict(name="S04-validate-ts-after-scan", props=["C02", "C01", "C15"], edits=[
     (S, "        let ts = self.scheduler_ctx.logical_timestamp();\n", ""),
     (S, "        vpoint!(VALIDATE_VERDICT);\n", "        vpoint!(VALIDATE_VERDICT);\n        let ts = self.scheduler_ctx.logical_timestamp();\n")]),
 dict(name="S05-validate-range-inclusive", props=["C01", "C05"], edits=[(S, "written_transactions.range(..txid).next_back()", "written_transactions.range(..=txid).next_back()")]),
 dict(name="S07-exec-conflict-rewind-plus2", props=["C01", "C02", "C05"], edits=[(S, "        if conflict {\n            self.scheduler_ctx.rewind_validation_to(txid + 1);\n        } else {\n            if write_new_locations", "        if conflict {\n            self.scheduler_ctx.rewind_validation_to(txid + 2);\n        } else {\n            if write_new_locations")]),
 dict(name="S08-validate-conflict-no-rewind", props=["C01", "C02", "C05"], edits=[(S, "        tx_state.status = if conflict {\n            self.scheduler_ctx.rewind_validation_to(txid + 1);\n", "        tx_state.status = if conflict {\n")]),
 dict(name="S09-stale-mv-entry-kept", props=["C01", "C02"], edits=[(S, "                            written_transactions.remove(&txid);\n", "")]),
 dict(name="S11-error-branch-no-estimate-mark", props=["C01", "C02", "C04", "C03"], edits=[(S, "                    write_set = std::mem::take(&mut last_result.write_set);\n                    self.mark_mv_estimate(txid, &write_set);\n", "                    write_set = std::mem::take(&mut last_result.write_set);\n")]),
 dict(name="S12-validate-no-estimate-mark", props=["C01", "C02"], edits=[(S, "            self.mark_mv_estimate(txid, &result.write_set);\n            if !beneficiary.invalidate", "            if !beneficiary.invalidate")]),
 dict(name="S13-validate-dep-not-filtered", props=["C05", "C01"], edits=[(S, "dependency.filter(|&dep| dep >= self.scheduler_ctx.finality_idx())", "dependency")]),
 dict(name="S17-finality-second-notify-removed", props=["C05"], edits=[(S, "                if finality_idx - previous_finality_idx > 1 {", "                if false {")]),
 dict(name="S18-commit-release-before-publish", props=["C05", "C02", "C04"], edits=[
     (S, "                        self.scheduler_ctx.publish_commit(next_commit_idx);\n", ""),
     (S, "                        self.tx_dependency.commit(commit_idx);\n", "                        self.tx_dependency.commit(commit_idx);\n                        self.scheduler_ctx.publish_commit(next_commit_idx);\n")]),
 dict(name="S19-started-at-head-always", props=["C04"], edits=[(S, "let started_at_commit_head = self.scheduler_ctx.committed_idx() == txid;", "let started_at_commit_head = true;")]),
 dict(name="S22-handoff-no-rewind", props=["C05", "C01"], edits=[(S, "        if let Some(next) = next {\n            self.scheduler_ctx.rewind_validation_to(txid);\n", "        if let Some(next) = next {\n")]),
 dict(name="S24-history-estimate-only-on-mv-conflict", props=["C07", "C02"], edits=[(S, "                let history_published = if conflict {", "                let history_published = if conflict && !blocked_by_beneficiary {")]),
 dict(name="S25-validate-beneficiary-skip-dependency", props=["C07", "C05"], edits=[(S, "                if !validation.is_valid() {\n                    conflict = true;\n                }", "                if !validation.is_valid() && validation.dependency().is_some() {\n                    conflict = true;\n                }")]),
 dict(name="S26-finality-first-notify-removed", props=["C05"], edits=[(S, "                if finality_idx == previous_finality_idx {", "                if false {")]),
 dict(name="S27-validate-notify-never", props=["C05"], edits=[(S, "        if txid == self.scheduler_ctx.finality_idx() {\n            self.finality_wait.notify();", "        if txid + 1 == self.scheduler_ctx.finality_idx() {\n            self.finality_wait.notify();")]),

 dict(name="I01-basic-range-inclusive", props=["C01", "C02"], edits=[(I, "                let Some((&txid, entry)) =\n                    written_transactions.range(..self.version.txid).next_back() &&\n                let MemoryValue::Basic(account) = &entry.data", "                let Some((&txid, entry)) =\n                    written_transactions.range(..=self.version.txid).next_back() &&\n                let MemoryValue::Basic(account) = &entry.data")]),
 dict(name="I02-storage-range-inclusive", props=["C01", "C02", "C08"], edits=[(I, "            let Some((&txid, entry)) = writes.range(..self.version.txid).next_back() &&\n            let MemoryValue::Storage(value) = entry.data", "            let Some((&txid, entry)) = writes.range(..=self.version.txid).next_back() &&\n            let MemoryValue::Storage(value) = entry.data")]),
 dict(name="I05-reset-not-in-readset", props=["C08", "C01"], edits=[(I, "        self.read_set.insert(reset_location, reset_version);\n", "")]),
 dict(name="I06-code-changed-requires-snapshot", props=["C09", "C01"], edits=[(I, "                account_snapshot.is_none_or(|basic| basic.code_hash != Some(info.code_hash));", "                account_snapshot.is_some_and(|basic| basic.code_hash != Some(info.code_hash));")]),
 dict(name="I07-basic-publish-balance-only", props=["C01", "C03", "C07", "C09"], edits=[(I, "                        basic.nonce != info.nonce || basic.balance != info.balance", "                        basic.balance != info.balance")]),
 dict(name="I12-reset-falls-to-db", props=["C08"], edits=[(I, "        if reset_txid.is_some() {\n            return Ok(U256::ZERO);\n        }\n", "")]),
 dict(name="I13-slot-no-readset-when-from-db", props=["C01", "C02"], edits=[(I, "        self.read_set.insert(location, slot_version);\n", "        if !matches!(slot_version, ReadVersion::Storage) {\n            self.read_set.insert(location, slot_version);\n        }\n")]),
 dict(name="I14-code-read-no-readset", props=["C09"], edits=[(I, "        self.read_set.insert(location, read_version);\n        Ok(result.expect(\"No bytecode\"))", "        Ok(result.expect(\"No bytecode\"))")]),
 dict(name="I15-deleted-no-basic-publish", props=["C08", "C01"], edits=[(I, "                FinalizedAccount::Deleted => {\n                    if !self.beneficiary.matches(*address) {", "                FinalizedAccount::Deleted => {\n                    if false {")]),
 dict(name="I16-created-no-reset", props=["C08"], edits=[(I, "            if created {\n                self.publish_storage_reset(*address, estimate, &mut write_set);\n            }\n", "")]),
 dict(name="I17-snapshot-kept-across-incarnations", props=["C01", "C09"], edits=[(I, "        self.account_snapshots.clear();\n        IncarnationAccesses {\n            read_set: std::mem::take(&mut self.read_set),", "        IncarnationAccesses {\n            read_set: std::mem::take(&mut self.read_set),"), (I, "        self.version = version;\n        self.read_set.clear();\n        self.account_snapshots.clear();", "        self.version = version;\n        self.read_set.clear();")]),

 dict(name="O01-commit-accepts-nonce-too-low", props=["C03"], edits=[(OC, "                        Ordering::Less => {\n                            // See the nonce-too-high branch above: fallback owns the final outcome.\n                            return Ok(CommitOutcome::NeedsSequentialFallback);\n                        }", "                        Ordering::Less => {}")]),
 dict(name="O03-commit-no-nonce-overflow-branch", props=["C03"], edits=[(OC, "                    if tx_env.nonce == u64::MAX && expect == u64::MAX {", "                    if false {")]),
 dict(name="O04-deferred-reward-no-touch", props=["C07", "C10"], edits=[(OC, "            account.mark_touch();\n            let _ = state.insert(self.beneficiary, account);", "            let _ = state.insert(self.beneficiary, account);")]),

 dict(name="F01-seq-no-nonce-overflow", props=["C03", "C06"], edits=[(FB, "                reject_nonce_overflow(evm.db_mut(), self.cfg.disable_nonce_check, tx)?;\n", "")]),
 dict(name="F02-seq-finalize-only-on-ok", props=["C04", "C03", "C11"], edits=[(FB, "                let state = evm.finalize();\n                output.map(|output| {\n", "                output.map(|output| {\n                    let state = evm.finalize();\n")]),
 dict(name="F03-seq-no-custom-precompiles", props=["C11", "C06"], edits=[(FB, "                self.custom_precompiles.as_ref(),\n                self.config.delegated_safety.forbid_delegated_create,", "                &[],\n                self.config.delegated_safety.forbid_delegated_create,")]),
 dict(name="F04-seq-no-create-guard", props=["C12", "C06"], edits=[(FB, "                self.config.delegated_safety.forbid_delegated_create,\n            );", "                false,\n            );")]),

 dict(name="C03-cancel-no-commit-notify", props=["C05"], edits=[(CT, "        self.finality_wait.notify();\n        self.commit_wait.notify();\n", "        self.finality_wait.notify();\n")]),
 dict(name="C05-cancel-no-finality-notify", props=["C05"], edits=[(CT, "        self.finality_wait.notify();\n        self.commit_wait.notify();\n", "        self.commit_wait.notify();\n")]),
 dict(name="C06-fatal-error-returns-txid0", props=["C04"], edits=[(CT, "                        return Err(GrevmError { txid: *txid, error });", "                        return Err(GrevmError { txid: committed.index().min(*txid), error });")]),

 dict(name="T04-keytx-ge", props=["C16", "C05"], edits=[(TD, "        if txid > commit_idx.get() {", "        if txid >= commit_idx.get() {")]),
 dict(name="T05-add-no-rewind-to-dep", props=["C16", "C05"], edits=[(TD, "            if dep_state.dependency.is_none() {\n                self.index.fetch_min(dep_id, Ordering::Relaxed);\n            }", "")]),
 dict(name="T06-add-none-no-rewind", props=["C16", "C05"], edits=[(TD, "                state.dependency = None;\n                self.index.fetch_min(txid, Ordering::Relaxed);", "                state.dependency = None;")]),
 dict(name="T08-commit-clears-unconditionally", props=["C16", "C05"], edits=[(TD, "            if state.onboard {\n                state.dependency = None;\n                self.index.fetch_min(next, Ordering::Relaxed);\n            }", "            state.dependency = None;\n            if state.onboard {\n                self.index.fetch_min(next, Ordering::Relaxed);\n            }")]),
 dict(name="T09-keytx-no-rewind", props=["C16", "C05"], edits=[(TD, "        if state.dependency.is_none() {\n            self.index.fetch_min(txid, Ordering::Relaxed);\n        }\n    }\n\n    /// Add one", "    }\n\n    /// Add one")]),
 dict(name="T10-remove-rewind-only-smaller", props=["C16", "C05"], edits=[(TD, "                    } else {\n                        self.index.fetch_min(tx, Ordering::Relaxed);\n                    }", "                    } else if tx == txid + 1 {\n                        self.index.fetch_min(tx, Ordering::Relaxed);\n                    }")]),

 dict(name="X01-frontier-publish-no-reload", props=["C15", "C05"], edits=[(CX, "        let frontier = self.frontier.load(Ordering::Acquire);\n        if index == frontier {", "        if index == frontier {")]),
 dict(name="X02-rewind-cursor-before-timestamp", props=["C15", "C02"], edits=[
     (CX, "        self.lower_timestamps[index].fetch_max(timestamp, Ordering::AcqRel);\n        let previous = self.validation.rewind(index);\n", "        let previous = self.validation.rewind(index);\n        self.lower_timestamps[index].fetch_max(timestamp, Ordering::AcqRel);\n")]),
 dict(name="X05-validation-limit-ignores-frontier", props=["C15", "C01", "C02"], edits=[(CX, "        let validation_limit = executing_idx.min(self.execution_frontier.current());", "        let validation_limit = executing_idx;")]),
 dict(name="X06-frontier-advance-single-step", props=["C15", "C05"], edits=[(CX, "            let current = self.frontier.fetch_max(end, Ordering::AcqRel);\n            start = max(current, end);", "            self.frontier.fetch_max(end, Ordering::AcqRel);\n            return;")]),
 dict(name="X07-claim-limit-inclusive", props=["C15"], edits=[(CU, "        if current >= limit {\n            return None;", "        if current > limit {\n            return None;")]),
 dict(name="X08-lower-ts-store", props=["C15"], edits=[(CX, "        self.lower_timestamps[index].fetch_max(timestamp, Ordering::AcqRel);", "        self.lower_timestamps[index].store(timestamp, Ordering::Release);")]),

 dict(name="R01-zero-reward-no-touch", props=["C07"], edits=[(RW, "        if reward.is_zero() || evm.ctx_ref().journal().evm_state().contains_key(&beneficiary) {", "        if reward.is_zero() {\n            return Ok(())\n        }\n        if evm.ctx_ref().journal().evm_state().contains_key(&beneficiary) {")]),
 dict(name="R04-apply-wrapping", props=["C07"], edits=[(RW, "        if let Some(balance) = account.balance.checked_add(self.0) {\n            account.balance = balance;\n        }", "        account.balance = account.balance.wrapping_add(self.0);")]),

 dict(name="H06-scan-stops-at-unchanged", props=["C07"], edits=[(HI, "                BeneficiaryEffect::Unchanged => {}\n                BeneficiaryEffect::Reward(reward) => rewards_newest_first.push(reward),", "                BeneficiaryEffect::Unchanged => {}\n                BeneficiaryEffect::Reward(reward) if rewards_newest_first.len() < 2 => rewards_newest_first.push(reward),\n                BeneficiaryEffect::Reward(_) => {}")]),
 dict(name="H07-invalidate-any-incarnation", props=["C07", "C02"], edits=[(HI, "        if state.incarnation != incarnation {\n            return false;\n        }\n        if matches!", "        if state.incarnation < incarnation {\n            return false;\n        }\n        if matches!")]),

 dict(name="P01-create-keeps-cached-storage", props=["C10", "C08"], edits=[(PS, "                    self.get_account_mut(address).newly_created(info.clone(), changed_storage);\n                vpoint!(CACHE_CLEAR);\n                self.storage.remove(&address);\n", "                    self.get_account_mut(address).newly_created(info.clone(), changed_storage);\n                vpoint!(CACHE_CLEAR);\n")]),
 dict(name="P02-fill-ignores-status-recheck", props=["C10"], edits=[(PS, "            Some(value) if !is_storage_known(self.cache) => value,\n            _ => U256::ZERO,", "            Some(value) => value,\n            _ => U256::ZERO,")]),
 dict(name="P03-eip161-keeps-cached-storage", props=["C10", "C08"], edits=[(PS, "                let transition = self.get_account_mut(address).touch_empty_eip161();\n                vpoint!(CACHE_CLEAR);\n                self.storage.remove(&address);\n", "                let transition = self.get_account_mut(address).touch_empty_eip161();\n                vpoint!(CACHE_CLEAR);\n")]),
 dict(name="P04-reverts-size-not-accumulated", props=["C10", "C01"], edits=[(BU, "                self.reverts_size += account.revert_size;\n", "")]),
 dict(name="P07-basic-fill-returns-fetched", props=["C10"], edits=[(PS, "            Entry::Vacant(entry) => Ok(entry.insert(account).account.clone()),\n            Entry::Occupied(entry) => Ok(entry.into_ref().account.clone()),", "            Entry::Occupied(_) => Ok(account.account),\n            Entry::Vacant(entry) => Ok(entry.insert(account).account.clone()),")]),
 dict(name="P08-destroy-clear-before-status", props=["C10"], edits=[(PS, "                let transition = self.get_account_mut(address).selfdestruct();\n                vpoint!(CACHE_CLEAR);\n                self.storage.remove(&address);\n                return transition;", "                self.storage.remove(&address);\n                vpoint!(CACHE_CLEAR);\n                let transition = self.get_account_mut(address).selfdestruct();\n                return transition;")]),
 dict(name="P09-contracts-not-cached-on-create", props=["C10", "C09"], edits=[(PS, "                self.contracts.entry(info.code_hash).or_insert_with(|| info.code.clone().unwrap());\n", "")]),
 dict(name="P10-bundle-state-size-missing", props=["C10", "C01"], edits=[(BU, "                self.state_size += account.state_size;\n", "")]),

 dict(name="PC1-static-not-enforced-on-set-balance", props=["C11"], edits=[(PC, "    ) -> Result<StateLoad<()>, ParallelPrecompileError> {\n        self.ensure_mutable()?;", "    ) -> Result<StateLoad<()>, ParallelPrecompileError> {\n        self.ensure_healthy()?;")]),
 dict(name="PC2-fault-not-forced", props=["C11", "C04"], edits=[(PC, "            let result = input.state.take_fault().map_or(result, Err);\n", "")]),
 dict(name="PC3-halt-loses-reservoir", props=["C11"], edits=[(PC, "                    Ok(PrecompileOutput::halt(reason, reservoir))", "                    Ok(PrecompileOutput::halt(reason, 0))")]),

 dict(name="HD1-reserve-no-min-with-balance-before", props=["C13"], edits=[(HD, "            let required = candidate.balance_before.min(future_cost);", "            let required = future_cost;")]),
 dict(name="HD2-reserve-le", props=["C13"], edits=[(HD, "            if candidate.final_balance < required {", "            if candidate.final_balance <= required {")]),
 dict(name="HD3-create-nonce-not-reapplied", props=["C13"], edits=[(HD, "            if recreate_sender_nonce {", "            if false && recreate_sender_nonce {")]),
 dict(name="HD4-violation-keeps-refund", props=["C13"], edits=[(HD, "    gas.set_refund(0);\n", "")]),
 dict(name="RS1-required-after-inclusive", props=["C13"], edits=[(RS, "        match self.txids.partition_point(|candidate| *candidate <= txid) {", "        match self.txids.partition_point(|candidate| *candidate < txid) {")]),
 dict(name="RS2-selfdestruct-not-a-debit", props=["C13"], edits=[(RS, "                JournalEntry::AccountDestroyed { address, had_balance, .. }\n                    if !had_balance.is_zero() =>\n                {\n                    Some(*address)\n                }", "")]),
 dict(name="RS3-balance-before-ignores-credit", props=["C13"], edits=[(RS, "                } else if *to == address && *from != address {\n                    balance = balance.saturating_sub(*value);\n                }", "                }")]),
 dict(name="RS4-suffix-wrapping", props=["C13"], edits=[(RS, "            suffix = suffix.saturating_add(cost);", "            suffix = suffix.wrapping_add(cost);")]),

 dict(name="W02-notify-no-fence", props=["C17"], edits=[(WT, "        fence(Ordering::SeqCst);\n        if let Some(thread) = self.thread.get() {", "        if let Some(thread) = self.thread.get() {")]),
]
