#!/usr/bin/env python3
"""Mutation campaign runner. usage: run.py [name-prefix ...]; results appended to results.jsonl"""
import json, os, subprocess, sys, time
sys.path.insert(0, "/root/mut2")
from mutants import M
REPO="/root/mut2/repo"; VERIF="/root/mut2/verif"
NPROC=os.environ.get("MUT_NPROC","8")
done=set()
if os.path.exists("/root/mut2/results.jsonl"):
    for l in open("/root/mut2/results.jsonl"):
        done.add(json.loads(l)["name"])
sel=sys.argv[1:]
for m in M:
    if m["name"] in done: continue
    if sel and not any(m["name"].startswith(s) for s in sel): continue
    subprocess.run(["git","-C",REPO,"checkout","--","."],check=True)
    ok=True
    for f,old,new in m["edits"]:
        p=os.path.join(REPO,f); s=open(p).read()
        if s.count(old)!=1:
            print(m["name"],"EDIT-MISMATCH",f,s.count(old)); ok=False; break
        open(p,"w").write(s.replace(old,new))
    if not ok:
        continue
    rec={"name":m["name"],"props":{}}
    t0=time.time()
    env=dict(os.environ, CARGO_TARGET_DIR=REPO+"/target", CARGO_NET_OFFLINE="true")
    r=subprocess.run(["cargo","test","--workspace","--no-fail-fast","--offline","--lib"],cwd=REPO,env=env,capture_output=True,text=True)
    out=r.stdout+r.stderr
    if "error[" in out or "error:" in out and "test result" not in out:
        rec["suite"]="compile-error"; rec["detail"]=out[-600:]
    elif r.returncode!=0:
        rec["suite"]="killed-by-suite"; rec["detail"]=[l for l in out.splitlines() if "FAILED" in l or "failed" in l][:6]
    else:
        rec["suite"]="pass"
        env2=dict(os.environ, VERIF_REPO=REPO, VERIF_NPROC=NPROC, VERIF_BUDGET_S="150")
        for p in m["props"]:
            t1=time.time()
            r=subprocess.run([VERIF+"/bin/check",p,"--tier","quick"],cwd=VERIF,env=env2,capture_output=True,text=True)
            line=next((l for l in r.stdout.splitlines() if l.startswith(("VIOLATION","OK","MACHINERY"))), (r.stdout+r.stderr)[-300:])
            det="\n".join(r.stdout.splitlines()[1:4])[:500] if r.returncode==1 else ""
            rec["props"][p]={"exit":r.returncode,"line":line[:300],"detail":det,"s":round(time.time()-t1)}
    rec["wall"]=round(time.time()-t0)
    caught=[p for p,v in rec["props"].items() if v["exit"]==1]
    rec["caught"]=caught
    print(m["name"],rec["suite"],"caught="+",".join(caught),{p:v["exit"] for p,v in rec["props"].items()},rec["wall"],flush=True)
    open("/root/mut2/results.jsonl","a").write(json.dumps(rec)+"\n")
subprocess.run(["git","-C",REPO,"checkout","--","."],check=True)
